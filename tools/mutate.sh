#!/bin/sh
# usage: tools/mutate.sh <prop> <repo-relative-file> <python-regex-old> <new> [extra check args]
# Applies a textual mutation to a scratch copy of /repo/cubed (outside /repo and /verif), runs the check against it,
# removes the copy.  Exit code is the check's.
prop="$1"; file="$2"; old="$3"; new="$4"; shift 4
d=$(mktemp -d /tmp/pyvc-mut-XXXXXX)
cp -r /repo/cubed "$d/cubed"
python3 - "$d/$file" "$old" "$new" <<'PY'
import re, sys
p, old, new = sys.argv[1:4]
s = open(p).read()
s2, n = re.subn(old, new.replace("\\n", "\n"), s, count=1, flags=re.S)
if n != 1:
    print("MUTATION DID NOT APPLY"); sys.exit(7)
open(p, "w").write(s2)
PY
rc=$?
if [ $rc -ne 0 ]; then rm -rf "$d"; exit $rc; fi
cd /verif && PYVC_REPO="$d" ./check "$prop" --no-evidence "$@" | grep -E "VIOLATION|exit=|BROKEN|UNDECIDED" | cut -c1-260
rc=$?
rm -rf "$d"
exit $rc
