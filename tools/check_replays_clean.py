#!/usr/bin/env python3-vt
"""Every native replay harness must say `not reproduced` on the unchanged tree (a replay that `reproduces` on good code
would turn an undecided obligation into a false VIOLATION with a witness).  For every contract that defines a replay,
build the replay program for each of its quick configurations with a small default model and run it natively."""
import re
import sys

sys.path.insert(0, "/verif")
from pyvc import runner  # noqa: E402


def Model():
    """a plausible verifier model: extents 5, chunks 2, small parameters"""
    m = {}
    for lab in ("x", "y", "a0", "a1", "a2", "r", "src", "s"):
        for i in range(3):
            m[f"{lab}_n{i}"] = 5
            m[f"{lab}_c{i}"] = 2
    m.update(dict(num=5, n_rows=5, n_cols=4, start=1, stop=9, chunk=2, repeats=2, k=1, lead0=3, lead1=2, t0=3, t1=3, t2=3,
                  split0=2, split1=2, tgt0=3, tgt1=3))
    return m


KNOWN_TO_REPRODUCE = ("cubed.core.array:CoreArray[deserialization]", "cubed.core.ops:_store_array[lazy-source,no-region]",
                      "cubed.core.ops:partial_reduce[memory]")  # the default model (2 rows per chunk) lies in the known class x_c0<=2


def main():
    REG = runner.load_contracts()
    bad, n = [], 0
    only = sys.argv[1] if len(sys.argv) > 1 else None
    for name, sp in sorted(REG.items()):
        if only and only not in name:
            continue
        try:
            cfgs = sp.configs("quick")
        except Exception:
            continue
        seen = set()
        for cfg in cfgs[:6]:
            if "batch" in cfg:
                continue
            try:
                code = sp.replay(dict(cfg), Model(), dict(name="<probe>", kind="ensures"))
            except Exception as e:  # noqa: BLE001
                print(f"BUILDER-ERROR {name} {cfg}: {type(e).__name__}: {e}")
                bad.append(name)
                continue
            if not code and getattr(sp, "pure_replay", False):
                # generic concrete replay of pure-function contracts (pyvc/replay_pure.py)
                from pyvc.replay_pure import concrete_replay

                m = Model()
                m.update({k: 3 for k in ("n0", "n1", "n2", "cc0", "cc1", "cc2", "tc0", "tc1", "tc2", "r0", "r1", "r2", "w0", "w1", "w2")})
                m.update(dict(shape0=12, shape1=9, src0=3, src1=2, tgt0=4, tgt1=3, itemsize=8, min_mem=16, max_mem=4000, size=7, counter=3,
                              stop=20, num=2))
                try:
                    out = concrete_replay(sp, dict(cfg), m, dict(name="<probe>", kind="ensures"), runner.REPO)
                except Exception as e:  # noqa: BLE001
                    out = (None, f"generic replay crashed: {type(e).__name__}: {e}", None)
                if out is None:
                    continue
                n += 1
                rep, detail, _ = out
                tag = "ok(g)  " if rep is False else ("REPRODUCES-ON-CLEAN-TREE" if rep else "NO-VERDICT")
                print(f"{tag} {name} {cfg}: {str(detail)[:160]}")
                if rep is not False:
                    bad.append(name)
                continue
            if not code or code in seen:
                continue
            seen.add(code)
            n += 1
            rep, detail = runner.exec_native(code)
            if name in KNOWN_TO_REPRODUCE and rep:
                print(f"known   {name} {cfg}: reproduces, as recorded in KNOWN_FINDINGS.txt: {str(detail)[:120]}")
                continue
            tag = "ok     " if rep is False else ("REPRODUCES-ON-CLEAN-TREE" if rep else "NO-VERDICT")
            print(f"{tag} {name} {cfg}: {str(detail)[:160]}")
            if rep is not False:
                bad.append(name)
    print(f"replays run: {n}; problems: {len(bad)}")
    return 1 if bad else 0


if __name__ == "__main__":
    sys.exit(main())
