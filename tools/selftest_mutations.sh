#!/bin/sh
# Mutation self-test of the checks: each line applies one property-breaking change to a scratch copy of /repo/cubed
# (tools/mutate.sh: outside /repo and /verif, removed afterwards) and expects the named check to exit 1 with a VIOLATION
# line.  Usage: tools/selftest_mutations.sh [filter-regex]    Exit 0 iff every selected mutation was caught.
cd /verif || exit 3
flt="${1:-.}"
fail=0; n=0
run() {  # prop file regex replacement [check args...]
  desc="$1 $2 :: $3 -> $4"
  echo "$desc" | grep -Eq "$flt" || return 0
  n=$((n+1))
  out=$(tools/mutate.sh "$@" 2>&1); rc=$?
  if echo "$out" | grep -q "MUTATION DID NOT APPLY"; then echo "STALE   $desc"; fail=1; return; fi
  if echo "$out" | grep -q "^VIOLATION property=$1 "; then echo "caught  $desc"; else echo "MISSED  $desc"; echo "$out" | tail -2; fail=1; fi
}
run C14 cubed/vendor/rechunker/algorithm.py 'int\(headroom\)' 'int(headroom) + 1' --only consolidate_chunks
run C04 cubed/core/plan.py 'op.projected_mem > op.allowed_mem' 'op.projected_mem >= op.allowed_mem' --only _find_ops_exceeding_memory
run C04 cubed/primitive/blockwise.py 'projected_mem = max\(\n        primitive_op.projected_mem,' 'projected_mem = min(\n        primitive_op.projected_mem,' --only fuse_multiple
run C15 cubed/vendor/dask/blockwise.py 'zero_pos\[i\] if nb == 1 else index_pos\[i\]' 'index_pos[i] if nb == 1 else zero_pos[i]'
run C16 cubed/storage/zarr.py 'self.kwargs = kwargs' 'self.kwargs = kwargs\n        self.create()'
run C07 cubed/runtime/pipeline.py 'for names in nx.topological_generations\(dag\):' 'for names in [list(nx.topological_sort(dag))]:' --only visit_node_generations
run C09 cubed/core/plan.py 'target.nchunks_initialized != target.nchunks' 'target.nchunks_initialized < target.nchunks // 2' --only already_computed
run C08 cubed/runtime/asyncio.py 'start_times.update\(\{f: t for f in new_tasks.keys\(\)\}\)' 'start_times = {f: t for f in new_tasks.keys()}' --only async_map_unordered
run C02 cubed/core/optimization.py 'fused_dag\.add_edge\(pre_input, name\)' 'pass' --only multiple_inputs_optimize_dag
run C02 cubed/core/optimization.py 'if len\(array_names_intersect\) > 0:' 'if False:' --only multiple_inputs_optimize_dag
run C02 cubed/core/optimization.py 'and out_degree_unique\(dag, input\) == 1' 'and out_degree_unique(dag, input) >= 1' --only optimize_dag
run C15 cubed/primitive/blockwise.py 'return arg.args\[0\] if len\(arg.args\) == 1 else list\(arg.args\)' 'return list(arg.args)' --only fuse_blockwise_specs
run C12 cubed/array_api/creation_functions.py 'bs = x.shape\[0\]' 'bs = size' --only linspace
run C01 cubed/array_api/creation_functions.py 'bk = \(j - i\) \* chunksize' 'bk = (i - j) * chunksize' --only eye
run C17 cubed/core/ops.py 'if chunks != a.chunks and all\(a.chunks\):' 'if compute_numblocks(chunks) != a.numblocks and all(a.chunks):' --only unify_chunks
run C03 cubed/core/ops.py '2 \* array_memory\(dtype, to_chunksize\(chunks\)\)' '2 * array_memory(x.dtype, to_chunksize(chunks))' --only 'partial_reduce[memory]'
run C06 cubed/storage/stores/zarr_python_v3.py 'if mode == "a":\n                    ret\[field\] = group\[field\]' 'if mode == "zzz":\n                    ret[field] = group[field]' --only open_zarr_v3_array
run C11 cubed/core/ops.py 'sl.stop % cs != 0 and sl.stop != shape\[i\]' 'sl.stop % cs != 0 and sl.stop // cs != shape[i] // cs' --only '_store_array[region]'
run C17 cubed/array_api/linalg.py 'if any\(c < x.shape\[1\] for c in x.chunks\[0\]\):' 'if False:' --only tsqr
run C19 cubed/core/ops.py 'spec0 = specs\[0\] if len\(specs\) > 0 else spec' 'spec0 = getattr(args[0], "spec", spec) if len(args) > 0 else spec' --only map_blocks
run C18 cubed/spec.py 'and self.allowed_mem == other.allowed_mem' 'and True' --only 'Spec.__eq__'
run C01 cubed/array_api/manipulation_functions.py 'start, stop = axis_len - stop, axis_len - start' 'start, stop = start, stop' --only ':flip'
run C01 cubed/array_api/manipulation_functions.py 'bd if old > 1 else chunklen\(new\)' 'bd if old >= 1 else chunklen(new)' --only broadcast_to
run C20 cubed/core/plan.py '    # args from primitive_op onwards are omitted' '    def __eq__(self, other):\n        return isinstance(other, Plan) and set(self.dag) == set(other.dag)\n\n    def __hash__(self):\n        return hash(self.array_names)\n\n    # args from primitive_op onwards are omitted' --only per-plan
run C14 cubed/core/ops.py 'yield read_chunks, int_chunks' 'yield read_chunks, write_chunks' --only _rechunk_plan
run C14 cubed/core/ops.py 'target_chunks_ = target_chunks if last_stage else write_chunks' 'target_chunks_ = write_chunks' --only _rechunk_plan
run C13 cubed/core/plan.py 'self._num_tasks \+= primitive_op.num_tasks' 'self._num_tasks = max(self._num_tasks, primitive_op.num_tasks)' --only totals
run C06 cubed/random.py 'rg = Generator\(Philox\(key=root_seed \+ stream_id\)\)' 'rg = Generator(Philox(key=root_seed))' --only cubed.random
run C06 cubed/random.py '    root_seed = pyrandom.getrandbits\(128\)\n' '    root_seed = 0\n' --only cubed.random
run C01 cubed/core/ops.py 'result = nxp.concat\(\[result, reduced_chunk\], axis=axis\[0\]\)\n            result = reduce_func' 'result = nxp.concat([result, result], axis=axis[0])\n            result = reduce_func' --only 'cubed.core.ops:partial_reduce'
run C12 cubed/core/ops.py 'k: nxp.concat\(\[result\[k\], reduced_chunk\[k\]\], axis=axis\[0\]\)' 'k: nxp.concat([result[k], reduced_chunk[k]], axis=axis[0]) if k != "n" else result[k]' --only 'partial_reduce[structured]'
run C01 cubed/core/ops.py 'for _ in range\(depth\):' 'for _ in range(depth - 1):' --only 'ops:reduction'
run C01 cubed/core/ops.py 'axis_to_squeeze = tuple\(i for i in axis if result.shape\[i\] == 1\)' 'axis_to_squeeze = tuple(i for i in axis[:1] if result.shape[i] == 1)' --only 'ops:reduction'
run C01 cubed/core/ops.py 'bi = block_id\[axis\] % split_every' 'bi = (block_id[axis] + 1) % split_every' --only 'ops:scan'
run C01 cubed/core/ops.py '        dtype=dtype,\n        include_initial=True,\n    \)' '        dtype=dtype,\n        include_initial=False,\n    )' --only 'ops:scan'
run C01 cubed/core/ops.py 'bi // split_every if i == axis else bi for i, bi in enumerate\(out_coords\)' '0 if i == axis else bi for i, bi in enumerate(out_coords)' --only 'ops:scan'
run C01 cubed/array_api/linear_algebra_functions.py 'x2_ind = tuple\(range\(x1.ndim - 2\)\) \+ \(x1_ind\[-1\], x1.ndim\)' 'x2_ind = tuple(range(x1.ndim - 2)) + (x1.ndim, x1_ind[-1])' --only matmul
run C01 cubed/core/indexing.py 'sel.append\(slice\(start\[j\], start\[j \+ 1\], step\)\)' 'sel.append(slice(start[j], start[j + 1] - (1 if j > 0 else 0), step))' --only 'indexing:index'
echo "selected=$n"
exit $fail
