#!/usr/bin/env python3
"""usage: tools/save_seed.py <id> <src dir> '<json meta fields>' — keep a confirmed seeded change under seeded/<id>/"""
import json, os, shutil, sys
sid, src, meta = sys.argv[1], sys.argv[2], json.loads(sys.argv[3])
d = os.path.join(os.path.dirname(os.path.dirname(os.path.abspath(__file__))), "seeded", sid)
os.makedirs(d, exist_ok=True)
shutil.copy(os.path.join(src, "patch.diff"), os.path.join(d, "patch.diff"))
shutil.copy(os.path.join(src, "demo.py"), os.path.join(d, "demo.py"))
base = dict(property=sid.split("-")[0], source="independent sub-agent (given only the property text and a scratch worktree)")
base.update(meta)
json.dump(base, open(os.path.join(d, "meta.json"), "w"), indent=1)
print("saved", d)
