#!/bin/sh
# usage: tools/try_seed.sh <patch.diff> <demo.py> <prop> [more props...]
# Confirms a seeded change in a scratch worktree-free copy (demo passes on clean code, fails with the patch), then runs
# the given checks against /repo with the patch applied and undoes it straight afterwards.
patch="$1"; demo="$2"; shift 2
cd /repo || exit 3
git diff --quiet || { echo "repo has uncommitted changes"; exit 3; }
echo "== demo on clean tree"; (cd /repo && timeout 300 /venv/bin/python "$demo" >/tmp/seed_demo_clean.log 2>&1; echo "exit=$?"; tail -2 /tmp/seed_demo_clean.log)
git apply "$patch" || { echo "patch does not apply"; exit 3; }
echo "== demo with patch"; (cd /repo && timeout 300 /venv/bin/python "$demo" >/tmp/seed_demo_patched.log 2>&1; echo "exit=$?"; tail -3 /tmp/seed_demo_patched.log)
for p in "$@"; do
  echo "== check $p with patch"
  (cd /verif && ./check "$p" --no-evidence 2>&1 | grep -E "VIOLATION|exit=|UNDECIDED|BROKEN" | head -8 | cut -c1-260)
done
git -C /repo checkout -- . ; git -C /repo status --short | grep -v "^??"
