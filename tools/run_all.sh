#!/bin/sh
# run every registered check (quick by default), print one summary line each; exit 1 if any is non-zero
cd /verif || exit 3
tier="${1:-quick}"
rc=0
export PYVC_STRICT=1
for p in $(python3-vt -c "import json; print(' '.join(c['property_id'] for c in json.load(open('MANIFEST.json'))['checks']))"); do
  out=$(PYVC_TIMING=1 ./check "$p" --tier "$tier" 2>&1); r=$?
  echo "$out" | grep -E "^\[timing\]" | head -2
  echo "$out" | tail -1 | cut -c1-260
  [ $r -ne 0 ] && { echo "   -> exit $r"; echo "$out" | grep -E "VIOLATION|UNDECIDED|BROKEN" | head -5 | cut -c1-300; rc=1; }
done
exit $rc
