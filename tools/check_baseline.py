"""Compare a junit xml of the repo's test suite with the stable baseline list (893 tests)."""
import json
import sys
import xml.etree.ElementTree as ET

b = json.load(open('/root/.vp/BASELINE.json'))
stable = set(b['stable_pass'])
res = {}
for tc in ET.parse(sys.argv[1]).iter('testcase'):
    name = f"{tc.get('classname')}::{tc.get('name')}"
    res[name] = not any(ch.tag in ('failure', 'error', 'skipped') for ch in tc)
missing = [s for s in stable if s not in res]
failed = [s for s in stable if s in res and not res[s]]
print(len(stable), 'stable; missing', len(missing), 'failed', len(failed))
print(failed[:20], missing[:5])
sys.exit(1 if (missing or failed) else 0)
