"""C01 / C12 / C17 — creation functions that *generate* their blocks (cubed/array_api/creation_functions.py arange,
linspace, eye and their block functions _arange, _linspace, _eye): the block a task returns has exactly the shape of
the region it is written into, and the element at global index g has the value NumPy gives it.

The block functions are interpreted from source; the NumPy kernels they call (nxp.arange / linspace / eye /
zeros_like) are assumed contracts (pyvc/arrays.py) giving the block's shape and each element's value as a term of its
local index ("generated" provenance).  linspace's arithmetic is over the reals (floating point rounding is not
modelled)."""
from __future__ import annotations

import z3

from pyvc.arrays import Dtype, make_spec
from pyvc.spec import register
from pyvc.sym import SReal, tz, wrap

from .c01_ops import ArrayOpSpec

CF = "cubed.array_api.creation_functions"


class CreationSpec(ArrayOpSpec):
    props = ("C01", "C12", "C17", "C03")
    quick_props = ("C12", "C01", "C03")


@register
class Arange(CreationSpec):
    """arange(start, stop, step, dtype=, chunks=c): shape (max(0, ceil((stop-start)/step)),); element g == start + g*step;
    every task's block has the shape of its region."""

    target = f"{CF}:arange"

    def configs(self, tier):
        steps = (1, 3, -1, -2) if tier == "quick" else (1, 2, 3, 7, -1, -2, -3)
        return [dict(step=s) for s in steps]

    def setup(self, c):
        st = c.cfg["step"]
        start, stop = c.int("start"), c.int("stop")
        ch = c.int("chunk", lo=1)
        c.assume(stop > start if st > 0 else stop < start)  # non-empty (an empty range has no tasks)
        c.spec_obj = make_spec(c)
        c.expect_origin = lambda j, g: ("<value>", (start + g[0] * st,))
        return (start, stop, st), dict(dtype=Dtype("int64", 8), chunks=ch, spec=c.spec_obj)

    def ensures(self, c, a, k, res):
        start, stop, st = a
        n = res.shape[0]
        d = tz(stop) - tz(start)
        nz = tz(n)
        if st > 0:
            yield "length", z3.And((nz - 1) * st < d, d <= nz * st)
        else:
            yield "length", z3.And((nz - 1) * st > d, d >= nz * st)
        yield "declared-chunks-sum-to-shape", res.chunks[0].total(c.interp) == n

    def replay_case(self, cfg, model):
        start, stop, ch = int(model.get("start", 0)), int(model.get("stop", 0)), max(1, int(model.get("chunk", 1)))
        st = cfg["step"]
        if abs(stop - start) > 5000:
            return None
        build = f"lambda xp, A: xp.arange({start}, {stop}, {st}, chunks={ch}, spec=A['__spec__'])"
        ref = f"lambda np, A: np.arange({start}, {stop}, {st})"
        return {}, build, ref


@register
class Linspace(CreationSpec):
    """linspace(start, stop, num, endpoint=, chunks=c) for num >= 1: shape (num,); element g == start + g*step with
    step = (stop - start)/div, div = num-1 if endpoint else num (1 if that is 0)."""

    target = f"{CF}:linspace"

    def configs(self, tier):
        return [dict(endpoint=e) for e in (True, False)]

    def setup(self, c):
        start, stop = c.int("start"), c.int("stop")
        num = c.int("num", lo=1)
        ch = c.int("chunk", lo=1)
        c.spec_obj = make_spec(c)
        ep = c.cfg["endpoint"]
        div = (num - 1) if ep else num

        def want(j, g):
            if c.interp.truth(div == 0):
                return ("<value>", (start,))
            # real arithmetic
            return ("<value>", (start + g[0] * (wrap(z3.ToReal(tz(stop - start))) / div),))

        c.expect_origin = want
        return (start, stop, num), dict(dtype=Dtype("float64", 8), endpoint=ep, chunks=ch, spec=c.spec_obj)

    def ensures(self, c, a, k, res):
        yield "shape", res.shape[0] == a[2]
        yield "declared-chunks-sum-to-shape", res.chunks[0].total(c.interp) == a[2]

    def replay_case(self, cfg, model):
        start, stop = int(model.get("start", 0)), int(model.get("stop", 0))
        num, ch = max(1, int(model.get("num", 1))), max(1, int(model.get("chunk", 1)))
        if num > 5000:
            return None
        build = f"lambda xp, A: xp.linspace({start}, {stop}, {num}, endpoint={cfg['endpoint']}, chunks={ch}, spec=A['__spec__'])"
        ref = f"lambda np, A: np.linspace({start}, {stop}, {num}, endpoint={cfg['endpoint']})"
        return {}, build, ref


@register
class LinspaceEmpty(CreationSpec):
    """linspace(start, stop, 0): NumPy returns an empty array of shape (0,)."""

    target = f"{CF}:linspace"
    name = f"{CF}:linspace[num=0]"

    def setup(self, c):
        c.spec_obj = make_spec(c)
        return (c.int("start"), c.int("stop"), 0), dict(dtype=Dtype("float64", 8), chunks=c.int("chunk", lo=1), spec=c.spec_obj)

    def ensures(self, c, a, k, res):
        yield "shape-is-(0,)", len(res.shape) == 1 and res.shape[0] == 0

    def replay_case(self, cfg, model):
        start, stop, ch = int(model.get("start", 0)), int(model.get("stop", 0)), max(1, int(model.get("chunk", 1)))
        return ({}, f"lambda xp, A: xp.linspace({start}, {stop}, 0, chunks={ch}, spec=A['__spec__'])",
                f"lambda np, A: np.linspace({start}, {stop}, 0)")


@register
class Eye(CreationSpec):
    """eye(n_rows, n_cols, k=, chunks=c): element (r, q) == 1 if q - r == k else 0; blocks have their region's shape."""

    target = f"{CF}:eye"

    def setup(self, c):
        n, m = c.int("n_rows", lo=1), c.int("n_cols", lo=1)
        kk = c.int("k")
        ch = c.int("chunk", lo=1)
        c.spec_obj = make_spec(c)
        c.expect_origin = lambda j, g: ("<value>", (wrap(z3.If(tz(g[1]) - tz(g[0]) == tz(kk), z3.IntVal(1), z3.IntVal(0))),))
        return (n, m), dict(k=kk, dtype=Dtype("float64", 8), chunks=(ch, ch), spec=c.spec_obj)

    def ensures(self, c, a, k, res):
        yield "shape", c.eq_tuple(res.shape, a)

    def replay_case(self, cfg, model):
        n, m = max(1, int(model.get("n_rows", 1))), max(1, int(model.get("n_cols", 1)))
        kk, ch = int(model.get("k", 0)), max(1, int(model.get("chunk", 1)))
        if n * m > 250000:
            return None
        build = f"lambda xp, A: xp.eye({n}, {m}, k={kk}, chunks=({ch}, {ch}), spec=A['__spec__'])"
        ref = f"lambda np, A: np.eye({n}, {m}, k={kk})"
        return {}, build, ref
