"""C04 / C03 / C13 — admission control, memory accounting, fusion bookkeeping (cubed/core/plan.py,
cubed/primitive/blockwise.py, cubed/primitive/memory.py)."""
from __future__ import annotations

import networkx as nx

from pyvc import gb
from pyvc.arrays import Dtype, ZArr
from pyvc.interp import IObj, Opaque
from pyvc.spec import FuncSpec, register
from pyvc.stubs import Recorder
from pyvc.sym import PyExc

PLAN = "cubed.core.plan"
PB = "cubed.primitive.blockwise"


def mk_op(c, label, n_inputs=1, gen=False, fusable=True, multi_in=None):
    """A PrimitiveOperation satisfying the invariant general_blockwise establishes:
    projected_mem >= reserved_mem + chunk memory of its target >= 0, num_tasks >= 1."""
    it = c.interp
    PO = it.world.lookup("cubed.primitive.types:PrimitiveOperation")
    CP = it.world.lookup("cubed.runtime.types:CubedPipeline")
    BS = it.world.lookup(f"{PB}:BlockwiseSpec")
    AB = it.world.lookup(f"{PB}:apply_blockwise")
    isz = c.int(f"{label}_itemsize", lo=1)
    ch = c.int(f"{label}_chunk", lo=1)
    tgt = ZArr(f"z:{label}", (c.int(f"{label}_n", lo=1),), Dtype(f"{label}.dt", isz), (ch,), kind="lazy")
    proj = c.int(f"{label}_projected_mem", lo=0)
    allowed = c.int(f"{label}_allowed_mem", lo=0)
    reserved = c.int(f"{label}_reserved_mem", lo=0)
    ntasks = c.int(f"{label}_num_tasks", lo=1)
    c.assume(proj >= reserved + isz * ch)
    nib = tuple(c.int(f"{label}_nib{i}", lo=1) for i in range(n_inputs))
    spec = it.call(BS, [Opaque(f"{label}.keyfn"), Opaque(f"{label}.fn"), nib, (1,), {}, {label: Opaque("proxy")}], {})
    pipe = it.call(CP, [AB, f"{label}-pipeline", Opaque(f"{label}.mappable"), spec], {})
    op = it.call(PO, [], dict(pipeline=pipe, source_array_names=[f"{label}_in{i}" for i in range(n_inputs)],
                              target_array=tgt, projected_mem=proj, allowed_mem=allowed, reserved_mem=reserved,
                              num_tasks=ntasks, fusable_with_predecessors=fusable, fusable_with_successors=fusable))
    return op


class PlanSpec(FuncSpec):
    def install(self, c):
        S = gb.install(c)
        S["cubed.utils:memory_repr"] = lambda it, fn, a, k: "<mem>"


@register
class FindOpsExceedingMemory(PlanSpec):
    """Plan._find_ops_exceeding_memory(dag): returns exactly the ops whose projected_mem > allowed_mem
    (strict: projected == allowed is admitted), worst offender first."""

    target = f"{PLAN}:Plan._find_ops_exceeding_memory"
    props = ("C04",)
    bounded = ("number of operation nodes in the DAG enumerated 0..3 (memory values unbounded)",)

    def configs(self, tier):
        return [dict(k=k) for k in ((0, 1, 2) if tier == "quick" else (0, 1, 2, 3))]

    def setup(self, c):
        k = c.cfg["k"]
        dag = nx.MultiDiGraph()
        ops = {}
        for i in range(k):
            op = mk_op(c, f"op{i}")
            ops[f"op-{i:03}"] = op
            dag.add_node(f"op-{i:03}", name=f"op-{i:03}", type="op", primitive_op=op, pipeline=op.pipeline)
            dag.add_node(f"array-{i:03}", name=f"array-{i:03}", type="array", target=op.target_array)
            dag.add_edge(f"op-{i:03}", f"array-{i:03}")
        dag.add_node("op-plain", name="op-plain", type="op")  # an op without a primitive op (creation function)
        c.ops = ops
        PlanCls = c.interp.world.lookup(f"{PLAN}:Plan")
        plan = IObj(PlanCls, dict(dag=dag, array_names=()))
        return (plan, dag), {}

    def ensures(self, c, a, k, res):
        names = [n for n, _ in res]
        yield "no-duplicates", len(set(names)) == len(names)
        for n, op in c.ops.items():
            over = op.projected_mem > op.allowed_mem
            yield f"listed-iff-over-budget[{n}]", over if n in names else c.Not(over)
        for (n, op) in res:
            yield f"entry-is-the-node's-op[{n}]", op is c.ops.get(n)
        for (n1, o1), (n2, o2) in zip(res, res[1:]):
            yield f"worst-first[{n1},{n2}]", o1.projected_mem >= o2.projected_mem

    def canaries(self, c, a, k, res):
        if c.ops:
            op = next(iter(c.ops.values()))
            yield "canary:at-boundary-rejected", c.implies(op.projected_mem == op.allowed_mem, len(res) > 0)

    def replay(self, cfg, model, ob):
        return ("import sys\nsys.path.insert(0, '/verif')\nfrom pyvc.replay_plan import run_find_ops_exceeding\n"
                f"reproduced, detail = run_find_ops_exceeding({dict(model)!r}, {cfg['k']})\n")


@register
class Validate(PlanSpec):
    """FinalizedPlan.validate(): raises ValueError iff the list of over-budget ops is non-empty."""

    target = f"{PLAN}:FinalizedPlan.validate"
    props = ("C04",)

    def configs(self, tier):
        return [dict(k=0), dict(k=1), dict(k=2)]

    def setup(self, c):
        FP = c.interp.world.lookup(f"{PLAN}:FinalizedPlan")
        ops = [(f"op-{i:03}", mk_op(c, f"op{i}")) for i in range(c.cfg["k"])]
        fp = IObj(FP, dict(_ops_exceeding_memory=ops, dag=nx.MultiDiGraph(), array_names=()))
        return (fp,), {}

    def ensures(self, c, a, k, res):
        yield "returns-only-when-nothing-exceeds", c.cfg["k"] == 0

    def raises(self, c, a, k, e):
        if e.etype is ValueError:
            return c.cfg["k"] > 0
        return None

    def replay(self, cfg, model, ob):
        return ("import sys\nsys.path.insert(0, '/verif')\nfrom pyvc.replay_plan import run_validate\n"
                f"reproduced, detail = run_validate({dict(model)!r}, {cfg['k']})\n")


@register
class Execute(PlanSpec):
    """FinalizedPlan.execute(executor, callbacks, resume, spec): validate() comes first — when the plan is over
    budget ValueError leaves before any callback, any completeness probe (resume) and before the executor is
    entered; otherwise compute-start callbacks, executor.execute_dag, compute-end callbacks happen in that order,
    each exactly once."""

    target = f"{PLAN}:FinalizedPlan.execute"
    props = ("C04", "C13")

    def configs(self, tier):
        return [dict(over=o, resume=r, ncb=n) for o in (False, True) for r in (False, True) for n in (0, 2)]

    def install(self, c):
        super().install(c)
        S = c.interp.world.summaries

        def already_computed(it, fn, a, k):
            it.ctx.effect("storage", "already_computed", a[0])
            return it.ctx.fresh_bool("computed")

        S[f"{PLAN}:already_computed"] = already_computed

    def setup(self, c):
        FP = c.interp.world.lookup(f"{PLAN}:FinalizedPlan")
        dag = nx.MultiDiGraph()
        op = mk_op(c, "op0")
        dag.add_node("op-000", name="op-000", type="op", primitive_op=op, pipeline=op.pipeline)
        dag.add_node("array-000", name="array-000", type="array", target=op.target_array)
        dag.add_edge("op-000", "array-000")
        if c.cfg["over"]:
            c.assume(op.projected_mem > op.allowed_mem)
            exceeding = [("op-000", op)]
        else:
            c.assume(op.projected_mem <= op.allowed_mem)
            exceeding = []
        fp = IObj(FP, dict(_ops_exceeding_memory=exceeding, dag=nx.freeze(dag), array_names=("array-000",)))
        ex = Recorder("executor")
        cbs = [Recorder(f"callback{i}") for i in range(c.cfg["ncb"])] if c.cfg["ncb"] else None
        return (fp,), dict(executor=ex, callbacks=cbs, resume=c.cfg["resume"], spec=None)

    def _trace(self, c):
        return [(e[0], e[1]) for e in c.ctx.effects if e[0] in ("executor", "storage") or e[0].startswith("callback")]

    def ensures(self, c, a, k, res):
        tr = self._trace(c)
        n = c.cfg["ncb"]
        want = ([("storage", "already_computed")] * 2 if c.cfg["resume"] else [])
        want += [(f"callback{i}", "on_compute_start") for i in range(n)] + [("executor", "execute_dag")]
        want += [(f"callback{i}", "on_compute_end") for i in range(n)]
        yield "not-over-budget", not c.cfg["over"]
        yield "effects-in-order-exactly-once", tr == want

    def raises(self, c, a, k, e):
        if e.etype is ValueError and c.cfg["over"]:
            # nothing may have happened before the refusal
            c.ctx.oblige("refusal-precedes-every-effect", self._trace(c) == [], kind="ensures", assume_after=False)
            return True
        return None


@register
class PeakProjectedMem(PlanSpec):
    """peak_projected_mem(ops): peak of running the ops in order, keeping one output chunk of each alive.
    ensures  result >= projected_mem of every op (None entries skipped), result >= 0, and
             result == max_i (sum_{j<i} chunkmem_j + projected_i)  — the closed form of the modelled peak."""

    target = f"{PB}:peak_projected_mem"
    props = ("C03", "C04")
    bounded = ("number of predecessor ops enumerated 0..3",)

    def configs(self, tier):
        return [dict(k=k, none_at=n) for k in (0, 1, 2, 3) for n in ([None] + list(range(k)))][: (8 if tier == "quick" else 99)]

    def setup(self, c):
        ops = []
        for i in range(c.cfg["k"]):
            ops.append(None if c.cfg["none_at"] == i else mk_op(c, f"p{i}"))
        c.ops = ops
        return (ops,), {}

    def ensures(self, c, a, k, res):
        real = [o for o in c.ops if o is not None]
        yield "non-negative", res >= 0
        kept = 0
        bounds = []
        for o in real:
            yield f"dominates[{real.index(o)}]", res >= o.projected_mem
            cm = o.target_array.dtype.itemsize * o.target_array.chunks[0]
            bounds.append(kept + o.projected_mem)
            kept = kept + cm
        if bounds:
            yield "is-attained", c.Or(*[res == b for b in bounds])
            for i, b in enumerate(bounds):
                yield f"covers-running-total[{i}]", res >= b
        else:
            yield "empty-is-zero", res == 0

    def canaries(self, c, a, k, res):
        real = [o for o in c.ops if o is not None]
        if len(real) >= 2:
            yield "canary:just-the-max", c.Or(*[res == o.projected_mem for o in real])

    def replay(self, cfg, model, ob):
        return ("import sys\nsys.path.insert(0, '/verif')\nfrom pyvc.replay_plan import run_peak\n"
                f"reproduced, detail = run_peak({dict(model)!r}, {cfg['k']}, {cfg['none_at']!r})\n")


@register
class CanFuseMultiple(PlanSpec):
    """can_fuse_multiple_primitive_ops(name, op, preds, max_total_num_input_blocks)
    ensures  True only if op and all non-None preds are blockwise fuse candidates, the peak projected memory of
             the predecessors (the very quantity fuse_multiple reports) fits op.allowed_mem, and either the task
             counts agree (no block limit) or the total number of input blocks is within the limit."""

    target = f"{PB}:can_fuse_multiple_primitive_ops"
    props = ("C04", "C02")

    def configs(self, tier):
        out = []
        for k in (1, 2):
            for lim in (False, True):
                out.append(dict(k=k, limit=lim, none_at=None))
        out.append(dict(k=2, limit=True, none_at=0))
        out.append(dict(k=2, limit=False, none_at=1))
        return out

    def setup(self, c):
        k = c.cfg["k"]
        op = mk_op(c, "op", n_inputs=k)
        preds = [None if c.cfg["none_at"] == i else mk_op(c, f"p{i}") for i in range(k)]
        lim = c.int("max_blocks", lo=0) if c.cfg["limit"] else None
        c.op, c.preds = op, preds
        return ("op-x", op, preds), dict(max_total_num_input_blocks=lim)

    def ensures(self, c, a, k, res):
        peak = c.interp.world.lookup(f"{PB}:peak_projected_mem")
        pk = c.interp.call(peak, [list(c.preds)], {})
        real = [p for p in c.preds if p is not None]
        if res is True or res is False:
            r = res
        else:
            r = res
        yield "true-implies-predecessor-peak-fits", c.implies(r, pk <= c.op.allowed_mem)
        if k["max_total_num_input_blocks"] is None:
            yield "true-implies-equal-task-counts", c.implies(r, c.And(*[c.op.num_tasks == p.num_tasks for p in real]))
        else:
            tot = 0
            nib = c.op.pipeline.config.num_input_blocks
            for ni, p in zip(nib, c.preds):
                if p is None:
                    continue
                for nj in p.pipeline.config.num_input_blocks:
                    tot = tot + ni * nj
            yield "true-iff-blocks-within-limit-and-memory", c.implies(pk <= c.op.allowed_mem, r == (tot <= k["max_total_num_input_blocks"]))

    def canaries(self, c, a, k, res):
        yield "canary:always-true", res == True  # noqa: E712


@register
class FuseMultiple(PlanSpec):
    """fuse_multiple(op, *preds) -> fused op.
    ensures  projected_mem == max(op.projected_mem, peak_projected_mem(non-None preds)) hence >= the projected
             memory of every replaced op; num_tasks, allowed_mem, reserved_mem, target_array are op's;
             source_array_names is the concatenation of the predecessors' (or op's own input where None);
             combined with can_fuse_multiple_primitive_ops: a fused op never exceeds allowed_mem if op did not."""

    target = f"{PB}:fuse_multiple"
    props = ("C04", "C03", "C13", "C02")

    def configs(self, tier):
        return [dict(k=1, none_at=None), dict(k=2, none_at=None), dict(k=2, none_at=0), dict(k=2, none_at=1)]

    def install(self, c):
        super().install(c)
        S = c.interp.world.summaries
        S[f"{PB}:fuse_blockwise_specs"] = lambda it, fn, a, k: Opaque("fused-spec")

    def setup(self, c):
        k = c.cfg["k"]
        op = mk_op(c, "op", n_inputs=k)
        preds = [None if c.cfg["none_at"] == i else mk_op(c, f"p{i}") for i in range(k)]
        c.op, c.preds = op, preds
        return (op, *preds), {}

    def ensures(self, c, a, k, res):
        op, preds = c.op, c.preds
        real = [p for p in preds if p is not None]
        peak = c.interp.world.lookup(f"{PB}:peak_projected_mem")
        pk = c.interp.call(peak, [real], {})
        yield "projected-is-max-of-op-and-predecessor-peak", res.projected_mem == c.max(op.projected_mem, pk)
        yield "never-under-reports[op]", res.projected_mem >= op.projected_mem
        for i, p in enumerate(real):
            yield f"never-under-reports[pred{i}]", res.projected_mem >= p.projected_mem
        yield "num_tasks-preserved", res.num_tasks == op.num_tasks
        yield "budget-is-op's", c.And(res.allowed_mem == op.allowed_mem, res.reserved_mem == op.reserved_mem)
        yield "target-is-op's", res.target_array is op.target_array
        yield "mappable-is-op's", res.pipeline.mappable is op.pipeline.mappable
        names = []
        for i, p in enumerate(preds):
            names.extend([op.source_array_names[i]] if p is None else p.source_array_names)
        yield "source-names", list(res.source_array_names) == names
        # C04: default optimisation keeps a fitting plan fitting
        cf = c.interp.world.lookup(f"{PB}:can_fuse_multiple_primitive_ops")
        ok = c.interp.call(cf, ["op-x", op, list(preds)], dict(max_total_num_input_blocks=None))
        yield "stays-within-budget-when-fusion-was-allowed", c.implies(
            c.And(ok, op.projected_mem <= op.allowed_mem), res.projected_mem <= res.allowed_mem)

    def canaries(self, c, a, k, res):
        yield "canary:projected-is-op's", res.projected_mem == c.op.projected_mem

    def replay(self, cfg, model, ob):
        return ("import sys\nsys.path.insert(0, '/verif')\nfrom pyvc.replay_plan import run_fuse_multiple\n"
                f"reproduced, detail = run_fuse_multiple({dict(model)!r}, {cfg['k']}, {cfg['none_at']!r})\n")


@register
class Fuse(PlanSpec):
    """fuse(op1, op2) (legacy map fusion): projected_mem == max(op1, op2); num_tasks == op2.num_tasks (== op1's)."""

    target = f"{PB}:fuse"
    props = ("C04", "C03", "C13", "C02")

    def setup(self, c):
        op1, op2 = mk_op(c, "a"), mk_op(c, "b")
        c.assume(op1.num_tasks == op2.num_tasks)  # = the assert, guaranteed by can_fuse_primitive_ops
        c.op1, c.op2 = op1, op2
        return (op1, op2), {}

    def ensures(self, c, a, k, res):
        o1, o2 = c.op1, c.op2
        yield "projected-is-max", res.projected_mem == c.max(o1.projected_mem, o2.projected_mem)
        yield "never-under-reports", c.And(res.projected_mem >= o1.projected_mem, res.projected_mem >= o2.projected_mem)
        yield "num_tasks-preserved", c.And(res.num_tasks == o2.num_tasks, res.num_tasks == o1.num_tasks)
        yield "budget-is-op2's", c.And(res.allowed_mem == o2.allowed_mem, res.reserved_mem == o2.reserved_mem)
        yield "target-is-op2's", res.target_array is o2.target_array
        yield "sources-are-op1's", res.source_array_names is o1.source_array_names
        yield "mappable-is-op2's", res.pipeline.mappable is o2.pipeline.mappable

    def canaries(self, c, a, k, res):
        yield "canary:projected-is-sum", res.projected_mem == c.op1.projected_mem + c.op2.projected_mem

    def replay(self, cfg, model, ob):
        return ("import sys\nsys.path.insert(0, '/verif')\nfrom pyvc.replay_plan import run_fuse_pair\n"
                f"reproduced, detail = run_fuse_pair({dict(model)!r})\n")


@register
class CanFusePrimitiveOps(PlanSpec):
    target = f"{PB}:can_fuse_primitive_ops"
    props = ("C13", "C02")

    def setup(self, c):
        c.op1, c.op2 = mk_op(c, "a"), mk_op(c, "b")
        return (c.op1, c.op2), {}

    def ensures(self, c, a, k, res):
        yield "true-implies-equal-task-counts", c.implies(res, c.op1.num_tasks == c.op2.num_tasks)
