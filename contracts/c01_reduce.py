"""C01/C12/C17/C03 — reductions and scans: partial_reduce, its block function, scan (cumulative_sum/prod)."""
from __future__ import annotations

from pyvc import gb
from pyvc.arrays import SymBlock, sym_array
from pyvc.interp import Opaque
from pyvc.loops import ForInvariant
from pyvc.spec import FuncSpec, register
from pyvc.sym import PyExc, Unsupported
from pyvc.symseq import MapSeq, SymRange, SymSeq

from .c01_ops import ArrayOpSpec, ranks

OPS = "cubed.core.ops"


class ReduceFn:
    """Uninterpreted reduction kernel with its assumed *shape* contract: with keepdims=True the reduced axes get
    extent 1, every other axis keeps its extent ("reduce"); or the identity ("identity")."""

    _pyvc_keywords = ("axis", "keepdims")
    _pyvc_is_gen = False

    def __init__(self, kind, label="R", out_dtype=None):
        self.kind, self.label, self.out_dtype = kind, label, out_dtype
        self.__name__ = label

    def __call__(self, x, axis=None, keepdims=False, **kw):
        if isinstance(x, dict):
            return {k: self(v, axis=axis, keepdims=keepdims) for k, v in x.items()}
        if self.kind == "identity":
            return x
        if axis is None:
            axis = tuple(range(x.ndim))
        if not isinstance(axis, tuple):
            axis = (axis,)
        if not keepdims:
            raise Unsupported("reduction kernel without keepdims")
        out = SymBlock(tuple(1 if i in axis else s for i, s in enumerate(x.shape)), self.out_dtype or x.dtype, None, f"{self.label}(...)")
        out.agg = getattr(x, "agg", None)  # a reduced chunk aggregates exactly the elements its argument aggregates
        out.aggpos = getattr(x, "aggpos", None)
        pg = getattr(x, "pagg", None)
        if pg is not None and pg["axis"] in axis:
            # the single element left along the axis aggregates the union of the block's element intervals, which must
            # be contiguous: f(k).hi == f(k+1).lo for 0 <= k < extent-1
            n_ax, f = x.shape[pg["axis"]], pg["f"]
            out.pagg = dict(axis=pg["axis"], f=(lambda l, f=f, n_ax=n_ax: (f(0)[0], f(n_ax - 1)[1])),
                            cond=list(pg["cond"]) + [("forall", n_ax - 1, (lambda k, f=f: tz_eq(f(k)[1], f(k + 1)[0])))])
        return out


def tz_(v):
    from pyvc.sym import tz as _tz

    return _tz(v)


def wrap_floor_block(e, cs):
    """start of the block containing e for chunk size cs (0 for a zero-extent axis, where cs == 0)"""
    import z3 as _z3
    from pyvc.sym import tz as _tz, wrap as _wrap

    ez, cz = _tz(e), _tz(cs)
    return _wrap(_z3.If(cz <= 0, _z3.IntVal(0), (ez / cz) * cz))


def tz_eq(a, b):
    from pyvc.sym import tz as _tz

    return _tz(a) == _tz(b)


def check_pagg(ctx, name, blk, want_f, extent, axis):
    """obligations: along `axis` the block's element l aggregates want_f(l), for every 0 <= l < extent, and every side
    condition the provenance was derived under holds"""
    import z3 as _z3
    from pyvc.sym import tz as _tz

    pg = getattr(blk, "pagg", None)
    if pg is None or pg["axis"] != axis:
        ctx.oblige(f"{name}:prefix-provenance-present", False, kind="ensures", detail="element provenance lost")
        return
    ctx.push()
    try:
        l = ctx.fresh_int("pl", lo=0)
        ctx.assume(l < extent)
        if ctx.feasible():
            got, want = pg["f"](l), want_f(l)
            ctx.oblige(f"{name}:element-aggregates-the-right-interval", _z3.And(_tz(got[0]) == _tz(want[0]), _tz(got[1]) == _tz(want[1])), kind="ensures")
    finally:
        ctx.pop()
    for i, cd in enumerate(pg["cond"]):
        if isinstance(cd, tuple) and cd[0] == "forall":
            _, bound, g = cd
            ctx.push()
            try:
                k = ctx.fresh_int("pk", lo=0)
                ctx.assume(k < bound)
                if ctx.feasible():
                    ctx.oblige(f"{name}:pieces-are-adjacent[{i}]", g(k), kind="ensures")
            finally:
                ctx.pop()
        else:
            ctx.oblige(f"{name}:pieces-are-adjacent[{i}]", cd, kind="ensures")


def partial_reduce_loop(c, kind):
    """Invariant of `for array in arrays` in _partial_reduce, indexed by the number j of blocks folded so far:
       j == 0 -> result is None;  j > 0 -> result is a block whose extent is 1 on every reduced axis (for a reducing
       kernel) resp. j along axis[0] (identity kernel folding blocks already reduced to extent 1), and equal to the
       blocks' common extent on every other axis."""

    def shape_after(interp, fr, j):
        arrays = fr.locals["arrays"]
        axis = fr.locals["axis"]
        b0 = arrays.get(interp, 0)
        shp = []
        for i, s in enumerate(b0.shape):
            if i in axis:
                shp.append(j if (kind == "identity" and i == axis[0]) else 1)
            else:
                shp.append(s)
        rf = fr.locals.get("reduce_func")
        return tuple(shp), (getattr(rf, "out_dtype", None) or b0.dtype)

    def agg_after(interp, fr, j):
        """single-axis reductions: after folding j blocks the result aggregates the union of their boxes — the interval
        from the first block's start to the j-th block's end along the axis, the blocks' common box elsewhere"""
        arrays = fr.locals["arrays"]
        axis = fr.locals["axis"]
        if kind != "reduce" or len(axis) != 1:
            return None
        b0 = arrays.get(interp, 0)
        g0 = getattr(b0, "agg", None)
        if g0 is None:
            return None
        gl = getattr(arrays.get(interp, j - 1), "agg", None)
        if gl is None:
            return None
        ax = axis[0]
        box = tuple((g0["box"][i][0], gl["box"][i][1]) if i == ax else g0["box"][i] for i in range(len(g0["box"])))
        return dict(src=g0["src"], box=box, cond=[])

    def fields_of(interp, fr):
        """structured reductions (mean, var, arg reductions): the kernels return a dict of per-field blocks; the running
        result is then a dict with the same fields"""
        cache = fr.locals.get("__fields__", "unset")
        if cache != "unset":
            return cache
        arrays, axis = fr.locals["arrays"], fr.locals["axis"]
        rf, init = fr.locals.get("reduce_func"), fr.locals.get("initial_func")
        off = interp.ctx.meter
        interp.ctx.meter = None
        try:
            b0 = arrays.get(interp, 0)
            sample = interp.call(init, [b0], {}) if init is not None else b0
            probe = interp.call(rf, [sample], dict(axis=axis, keepdims=True))
        finally:
            interp.ctx.meter = off
        fields = tuple(probe.keys()) if isinstance(probe, dict) else None
        fr.locals["__fields__"] = fields
        return fields

    def pos_after(interp, fr, j):
        """any reduction: after folding j blocks the result aggregates positions 0..j-1 of the task's block stream"""
        if kind != "reduce":
            return None
        g0 = getattr(fr.locals["arrays"].get(interp, 0), "aggpos", None)
        if g0 is None:
            return None
        return dict(seq=g0["seq"], lo=0, hi=j, cond=[])

    def stream_whole(interp, fr, l):
        """identity fold (scan): what the l-th reduced chunk of the stream aggregates — the whole interval of stream
        block l (after the initial function reduced it to extent 1)"""
        arrays, axis, init = fr.locals["arrays"], fr.locals["axis"], fr.locals.get("initial_func")
        if kind != "identity" or init is None:
            return None
        b = arrays.get(interp, l)
        pg = getattr(b, "pagg", None)
        if pg is None or pg["axis"] != axis[0]:
            return None
        n_ax = b.shape[axis[0]]
        return (pg["f"](0)[0], pg["f"](n_ax - 1)[1])

    def one_block(interp, fr, j):
        shp, dt = shape_after(interp, fr, j)
        blk = SymBlock(shp, dt, None, "partial")
        blk.agg = agg_after(interp, fr, j)
        blk.aggpos = pos_after(interp, fr, j)
        if kind == "identity" and stream_whole(interp, fr, 0) is not None:
            ax0 = fr.locals["axis"][0]
            blk.pagg = dict(axis=ax0, f=(lambda l: stream_whole(interp, fr, l)), cond=[])
        return blk

    def havoc(interp, fr, j):
        if interp.truth(j == 0):
            fr.locals["result"] = None
        else:
            fields = fields_of(interp, fr)
            if fields is None:
                fr.locals["result"] = one_block(interp, fr, j)
            else:
                fr.locals["result"] = {f: one_block(interp, fr, j) for f in fields}

    def holds_block(interp, fr, j, res, tag=""):
        shp, _ = shape_after(interp, fr, j)
        yield f"rank{tag}", len(res.shape) == len(shp)
        for i, (a, b) in enumerate(zip(res.shape, shp)):
            yield f"extent[{i}]{tag}", a == b
        want = agg_after(interp, fr, j)
        if want is not None:
            got = getattr(res, "agg", None)
            if got is None or got["src"] != want["src"] or len(got["box"]) != len(want["box"]):
                yield f"aggregates-the-first-j-blocks-each-once{tag}", False
            else:
                import z3 as _z3
                from pyvc.sym import tz as _tz

                terms = list(got["cond"])
                for (l1, h1), (l2, h2) in zip(got["box"], want["box"]):
                    terms += [_tz(l1) == _tz(l2), _tz(h1) == _tz(h2)]
                yield f"aggregates-the-first-j-blocks-each-once{tag}", _z3.And(*terms)
        if kind == "identity" and stream_whole(interp, fr, 0) is not None:
            # scans: element l of the running result is the reduced chunk of stream block l, for every l < j
            import z3 as _z3
            from pyvc.sym import tz as _tz

            pg = getattr(res, "pagg", None)
            if pg is None:
                yield f"element-l-is-the-reduced-stream-block-l{tag}", False
            else:
                check_pagg(interp.ctx, f"loop[_partial_reduce.fold]:preserved{tag}", res, (lambda l: stream_whole(interp, fr, l)), j, fr.locals["axis"][0])
        wantp = pos_after(interp, fr, j)
        if wantp is not None:
            import z3 as _z3
            from pyvc.sym import tz as _tz

            gp = getattr(res, "aggpos", None)
            if gp is None or gp["seq"] != wantp["seq"]:
                yield f"folds-stream-positions-0..j-1-each-once{tag}", False
            else:
                yield f"folds-stream-positions-0..j-1-each-once{tag}", _z3.And(*(list(gp["cond"]) + [_tz(gp["lo"]) == 0, _tz(gp["hi"]) == _tz(j)]))

    def holds(interp, fr, j):
        res = fr.locals.get("result")
        if res is None:
            yield "none-iff-nothing-folded", j == 0
            return
        yield "none-iff-nothing-folded", j != 0
        fields = fields_of(interp, fr)
        if fields is None:
            yield "is-a-block", isinstance(res, SymBlock)
            if isinstance(res, SymBlock):
                yield from holds_block(interp, fr, j, res)
        else:
            ok = isinstance(res, dict) and tuple(res.keys()) == tuple(fields)
            yield "is-a-dict-of-the-kernel's-fields", ok
            if ok:
                for f in fields:
                    yield from holds_block(interp, fr, j, res[f], f"[{f}]")

    return ForInvariant("_partial_reduce.fold", havoc, holds)


def install_partial_reduce_loop(c, kind):
    c.interp.loop_specs[(f"{OPS}:_partial_reduce", 1)] = partial_reduce_loop(c, kind)


class BlockStream(SymSeq):
    """An iterator of m >= 1 blocks that agree on the non-reduced axes (what a partial_reduce task receives)."""

    lazy = True

    def __init__(self, c, m, base_shape, axis, dtype, unit=False):
        self.c, self.m, self.base, self.axis, self.dtype, self.unit = c, m, base_shape, axis, dtype, unit
        self._cache = {}

    def length(self):
        return self.m

    def get(self, interp, k):
        key = k if isinstance(k, int) else k.t.get_id()
        self._alive = getattr(self, "_alive", [])
        self._alive.append(k)
        if key not in self._cache:
            shp = []
            for i, s in enumerate(self.base):
                if i in self.axis:
                    shp.append(interp.ctx.fresh_int("ext", lo=1))
                else:
                    shp.append(s)
            self._cache[key] = SymBlock(tuple(shp), self.dtype, None, "in")
        return self._cache[key]


@register
class PartialReduceBlock(FuncSpec):
    """_partial_reduce(arrays, reduce_func, initial_func, axis): folds an iterator of blocks.
    ensures (shape part): extent 1 on the reduced axes for a reducing kernel; for the identity kernel on blocks
    reduced by initial_func, extent == number of blocks along axis[0] (what scan relies on)."""

    target = f"{OPS}:_partial_reduce"
    props = ("C01", "C12")
    quick_props = ("C12",)

    def configs(self, tier):
        out = []
        for nd in ranks(tier):
            for kind in ("reduce", "identity"):
                for init in (False, True):
                    if kind == "identity" and not init:
                        continue
                    out.append(dict(ndim=nd, axis=[0], kind=kind, init=init))
                    if nd >= 2:
                        out.append(dict(ndim=nd, axis=[0, nd - 1], kind=kind, init=init))
        return out

    def install(self, c):
        gb.install(c)
        install_partial_reduce_loop(c, c.cfg["kind"])

    def setup(self, c):
        nd, axis = c.cfg["ndim"], tuple(c.cfg["axis"])
        base = c.ints("b", nd, lo=1)
        m = c.int("m", lo=1)
        from pyvc.arrays import Dtype

        arrays = BlockStream(c, m, base, axis, Dtype("dt", 8))
        kw = dict(reduce_func=ReduceFn(c.cfg["kind"]), axis=axis,
                  initial_func=(lambda a: ReduceFn("reduce", "init")(a, axis=axis, keepdims=True)) if c.cfg["init"] else None)
        c.base, c.m = base, m
        return (arrays,), kw

    def ensures(self, c, a, k, res):
        axis = k["axis"]
        yield "is-a-block", isinstance(res, SymBlock)
        for i, s in enumerate(res.shape):
            if i in axis:
                want = c.m if (c.cfg["kind"] == "identity" and i == axis[0]) else 1
            else:
                want = c.base[i]
            yield f"extent[{i}]", s == want

    def canaries(self, c, a, k, res):
        yield "canary:keeps-input-extent-on-reduced-axis", res.shape[k["axis"][0]] == 7


@register
class PartialReduce(ArrayOpSpec):
    """partial_reduce(x, func, initial_func, split_every, dtype, combine_sizes): one round of a tree reduction.
    Discharged through the universal contract with the real key function (keys in range for every group) and the
    real block function `_partial_reduce` (via its loop invariant).  Single-axis reductions carry *aggregation
    provenance*: the block a task returns aggregates exactly the elements of its group of input blocks — in order,
    each once (concatenated pieces must be adjacent) — and the groups tile the axis (GB.agg)."""

    target = f"{OPS}:partial_reduce"
    props = ("C01", "C12", "C17", "C03")
    quick_props = ("C12", "C03", "C01")

    def configs(self, tier):
        out = []
        for nd in ranks(tier):
            out.append(dict(ndim=nd, axes=[0], mode="reduce"))
            if nd >= 2:
                out.append(dict(ndim=nd, axes=[nd - 1], mode="reduce"))
                out.append(dict(ndim=nd, axes=[0, nd - 1], mode="reduce"))
            out.append(dict(ndim=nd, axes=[0], mode="scan"))
        return out

    def install(self, c):
        gb.install(c)
        install_partial_reduce_loop(c, "identity" if c.cfg["mode"] == "scan" else "reduce")

    def setup(self, c):
        nd, axes, mode = c.cfg["ndim"], c.cfg["axes"], c.cfg["mode"]
        x = sym_array(c, "x", nd)
        split = {ax: c.int(f"split{ax}", lo=2) for ax in axes}
        if mode == "scan":
            # the way scan() calls it: identity combine, preop as initial_func, combine_sizes = split size,
            # split size = min(split_every, numblocks) with more than one block
            ax = axes[0]
            c.assume(x.numblocks[ax] >= 2)
            c.assume(split[ax] <= x.numblocks[ax])
            nb, s_ = x.numblocks[ax], split[ax]
            q = c.interp.binop(__import__("operator").mul, (s_,), nb // s_)  # (s,) * (nb // s) as scan() builds it
            sizes = c.interp.binop(__import__("operator").add, q, (nb % s_,)) if c.interp.truth(nb % s_ != 0) else q
            kw = dict(initial_func=lambda a: ReduceFn("reduce", "preop")(a, axis=(ax,), keepdims=True),
                      func=ReduceFn("identity", "identity_func"), split_every=split, dtype=x.dtype,
                      combine_sizes={ax: sizes})
            return (x,), kw
        kw = dict(func=ReduceFn("reduce"), initial_func=None, split_every=split, dtype=x.dtype)
        if len(axes) == 1:
            c.check_result_block = self._group_clause(c, x, axes[0], split[axes[0]])
        else:
            c.check_result_block = self._stream_clause(c, x, split)
        return (x,), kw

    @staticmethod
    def _stream_clause(c, x, split):
        """C01 for one round of a reduction over several axes: the block a task returns folds *every* position of the
        task's block stream exactly once (positional provenance through `_partial_reduce`); every key of the stream
        lies in the task's group box, and the stream has exactly as many keys as the box has blocks — with
        itertools.product enumerating each tuple once (assumed), the task folds exactly the blocks of its group."""
        import z3

        from pyvc.sym import tz

        def hook(it, rec, tag, j, blk):
            if isinstance(blk, dict):
                for f, v in blk.items():
                    hook(it, rec, f"{tag}[{f}]", j, v)
                return
            ctx = it.ctx
            oc = rec.oc
            if not rec.streams:
                ctx.oblige(f"{tag}.agg[out{j}]:folds-its-whole-stream", False, kind="ensures", detail="no block stream")
                return
            _pos, keys, stream = rec.streams[0]
            m = keys.length()
            gp = getattr(blk, "aggpos", None)
            if gp is None or gp["seq"] != id(stream):
                ctx.oblige(f"{tag}.agg[out{j}]:folds-its-whole-stream", False, kind="ensures", detail="positional provenance lost")
            else:
                ctx.oblige(f"{tag}.agg[out{j}]:folds-its-whole-stream", z3.And(*(list(gp["cond"]) + [tz(gp["lo"]) == 0, tz(gp["hi"]) == tz(m)])), kind="ensures")
            # the group's box, per axis: blocks oc*S .. min((oc+1)*S, nb) - 1  (S = 1 on axes that are not reduced)
            count = 1
            los, his = [], []
            for i in range(x.ndim):
                s_ = split.get(i, 1)
                lo = oc[i] * s_
                hi = c.min((oc[i] + 1) * s_, x.numblocks[i])
                los.append(lo)
                his.append(hi)
                count = count * (hi - lo)
            ctx.oblige(f"{tag}.agg:stream-has-one-key-per-block-of-the-group", tz(m) == tz(count), kind="ensures")
            ctx.push()
            try:
                k = ctx.fresh_int("gk", lo=0)
                ctx.assume(k < m)
                if ctx.feasible():
                    key = keys.get(it, k)
                    coords = tuple(key.attrs["coords"])
                    ctx.oblige(f"{tag}.agg:every-key-lies-in-the-group-box",
                               z3.And(*[z3.And(tz(l) <= tz(cc), tz(cc) < tz(h)) for cc, l, h in zip(coords, los, his)]), kind="ensures")
            finally:
                ctx.pop()

        return hook

    @staticmethod
    def _group_clause(c, x, ax, s_):
        """C01 for one round of a single-axis reduction: the block a task returns aggregates *exactly* the elements of
        its group — input blocks oc*S .. min((oc+1)*S, nb)-1 along the axis, in order, each once — and the groups tile
        the axis."""
        import z3

        from pyvc.sym import tz

        def hook(it, rec, tag, j, blk):
            if isinstance(blk, dict):  # structured result: every field aggregates the group
                for f, v in blk.items():
                    hook(it, rec, f"{tag}[{f}]", j, v)
                return
            ctx = it.ctx
            oc = rec.oc
            n, cs, nb = x.shape[ax], x.chunksize[ax], x.numblocks[ax]
            lo = oc[ax] * s_ * cs
            hi = c.min((oc[ax] + 1) * s_ * cs, n)
            g = getattr(blk, "agg", None)
            if g is None or g["src"] != x.name or len(g["box"]) != x.ndim:
                ctx.oblige(f"{tag}.agg[out{j}]:aggregates-exactly-its-group", False, kind="ensures", detail="aggregation provenance lost")
                return
            terms = list(g["cond"]) + [tz(g["box"][ax][0]) == tz(lo), tz(g["box"][ax][1]) == tz(hi)]
            ctx.oblige(f"{tag}.agg[out{j}]:aggregates-exactly-its-group", z3.And(*terms), kind="ensures")
            for i in range(x.ndim):
                if i != ax:
                    r0 = rec.out_regions[j][i][0]
                    ctx.oblige(f"{tag}.agg[out{j}]:other-axes-in-place[{i}]",
                               z3.And(tz(g["box"][i][0]) == tz(r0), tz(g["box"][i][1]) == tz(r0 + rec.out_regions[j][i][1])), kind="ensures")
            # the groups tile [0, n): the first starts at 0, consecutive groups are adjacent, the last ends at n
            nbo = (nb + s_ - 1) // s_
            ctx.oblige(f"{tag}.agg:groups-tile-the-axis", z3.And(
                z3.Implies(tz(oc[ax]) == 0, tz(lo) == 0),
                z3.Implies(tz(oc[ax]) + 1 < tz(nbo), tz(hi) == tz((oc[ax] + 1) * s_ * cs)),
                z3.Implies(tz(oc[ax]) + 1 == tz(nbo), tz(hi) == tz(n))), kind="ensures")

        return hook

    def ensures(self, c, a, k, res):
        x = a[0]
        split = k["split_every"]
        for i in range(x.ndim):
            if i in split:
                nbo = (x.numblocks[i] + split[i] - 1) // split[i]
                yield f"numblocks[{i}]", res.numblocks[i] == nbo
            else:
                yield f"extent-unchanged[{i}]", res.shape[i] == x.shape[i]

    def replay_case(self, cfg, model):
        if cfg["mode"] != "scan":
            return None
        nd = cfg["ndim"]
        return ({"x": (nd, None)}, f"lambda xp, a: xp.cumulative_sum(a['x'], axis={cfg['axes'][0]})",
                f"lambda np, a: np.cumsum(a['x'], axis={cfg['axes'][0]})")


class FieldsInit:
    """initial function of a structured reduction (mean, var, arg reductions): a block -> dict of per-field reduced
    blocks (assumed shape contract of the per-block kernels)"""

    _pyvc_keywords = ("axis", "keepdims")
    _pyvc_is_gen = False

    def __init__(self, fields, axis):
        self.fields, self.axis = fields, axis
        self.__name__ = "init_fields"

    def __call__(self, x, **kw):
        r = ReduceFn("reduce", "init")
        return {f: r(x, axis=self.axis, keepdims=True) for f in self.fields}


@register
class PartialReduceStructured(ArrayOpSpec):
    """partial_reduce with a structured intermediate (the mean/var/arg-reduction route: the kernels return a dict of
    per-field blocks, `_partial_reduce` folds field by field): every field of the block a task returns has the shape of
    the region and aggregates exactly the task's group of input blocks."""

    target = f"{OPS}:partial_reduce"
    name = f"{OPS}:partial_reduce[structured]"
    props = ("C12", "C01")
    quick_props = ("C12",)

    def configs(self, tier):
        return [dict(ndim=1)] + ([dict(ndim=2)] if tier != "quick" else [])

    def install(self, c):
        gb.install(c)
        install_partial_reduce_loop(c, "reduce")

    def setup(self, c):
        from pyvc.arrays import Dtype

        nd = c.cfg["ndim"]
        x = sym_array(c, "x", nd)
        split = {0: c.int("split0", lo=2)}
        dt = [("n", Dtype("int64", 8)), ("total", Dtype("float64", 8))]
        c.expect_origin = None
        kw = dict(func=ReduceFn("reduce"), initial_func=FieldsInit(("n", "total"), (0,)), split_every=split, dtype=dt)
        c.check_result_block = PartialReduce._group_clause(c, x, 0, split[0])
        return (x,), kw

    def ensures(self, c, a, k, res):
        s_ = k["split_every"][0]
        yield "numblocks", res.numblocks[0] == (a[0].numblocks[0] + s_ - 1) // s_


@register
class PartialReduceMemory(ArrayOpSpec):
    """partial_reduce(x, func, initial_func, split_every, dtype): C03 for its tasks — at every allocation point of the
    real block function `_partial_reduce` (interpreted, with its loop invariant) the array data that is live fits into
    projected_mem - reserved_mem, for the task whose blocks have the full chunk size.
    Configurations: with/without the fused initial function, input dtype of 1 byte widened to an 8-byte intermediate
    (sum of int8) or 8 -> 8."""

    target = f"{OPS}:partial_reduce"
    name = f"{OPS}:partial_reduce[memory]"
    props = ("C03",)
    prop_obligations = {}
    trusted = ("reduction kernels allocate exactly their result block; the previous item of the block iterator is not "
               "counted (the model is a lower bound of what is resident)",
               "only the task whose blocks have the full chunk size is modelled (smaller edge blocks allocate less)")

    def configs(self, tier):
        out = []
        for nd in ((2,) if tier == "quick" else (1, 2)):
            for init in (True, False):
                for widen in ((True, False) if init else (False,)):
                    out.append(dict(ndim=nd, init=init, widen=widen))
        return out

    def install(self, c):
        gb.install(c)
        install_partial_reduce_loop(c, "reduce")
        c.meter_memory = True

    def setup(self, c):
        from pyvc.arrays import Dtype

        nd, init, widen = c.cfg["ndim"], c.cfg["init"], c.cfg["widen"]
        dt_in = Dtype("int8", 1) if widen else Dtype("int64", 8)
        dt_mid = Dtype("int64", 8)
        x = sym_array(c, "x", nd, dtype=dt_in)
        for n, nb, cs in zip(x.shape, x.numblocks, x.chunksize):
            c.assume(n == nb * cs)  # every block has the full chunk size
        split = {0: c.int("split0", lo=2)}
        c.expect_origin = None
        kw = dict(func=ReduceFn("reduce", out_dtype=dt_mid), split_every=split, dtype=dt_mid,
                  initial_func=(lambda a: ReduceFn("reduce", "init", out_dtype=dt_mid)(a, axis=(0,), keepdims=True)) if init else None)
        return (x,), kw

    def ensures(self, c, a, k, res):
        yield "dtype", res.dtype is k["dtype"]

    def replay(self, cfg, model, ob):
        """native: the same reduction on a real array with tracemalloc around every task"""
        c0 = max(1, int(model.get("x_c0", 1)))
        return f"""
import sys
sys.path.insert(0, '/verif')
from pyvc.replay_mem import run_reduction_memory_case
reproduced, detail = run_reduction_memory_case(rows_per_chunk={c0}, widen={bool(cfg['widen'])!r}, init={bool(cfg['init'])!r}, ndim={cfg['ndim']})
"""


class ElemwiseFn:
    """Uninterpreted elementwise kernel with NumPy broadcasting as its assumed shape contract."""

    _pyvc_keywords = ()
    _pyvc_is_gen = False

    def __init__(self, label="binop"):
        self.label = label
        self.__name__ = label

    def __call__(self, *blocks, **kw):
        from pyvc import sym

        interp = sym.cur().interp
        nd = max(b.ndim for b in blocks)
        shp = []
        for i in range(nd):
            ext = None
            for b in blocks:
                j = i - (nd - b.ndim)
                if j < 0:
                    continue
                e = b.shape[j]
                if ext is None:
                    ext = e
                elif interp.truth(ext == e):
                    continue
                elif interp.truth(ext == 1):
                    ext = e
                elif interp.truth(e == 1):
                    continue
                else:
                    raise PyExc(ValueError, ("operands could not be broadcast together",))
            shp.append(ext)
        origin = None
        if all(getattr(b, "origin", None) is not None for b in blocks):
            # provenance of an elementwise result: the argument elements it is computed from (NumPy broadcasting:
            # an argument axis of extent 1 is read at 0)
            def origin(loc, blocks=blocks, nd=nd):
                names, idx = [], []
                for b in blocks:
                    off = nd - b.ndim
                    bl = tuple(0 if interp.truth(b.shape[j] == 1) else loc[j + off] for j in range(b.ndim))
                    nm, ix = b.origin(bl)
                    al = getattr(getattr(sym.cur(), "case", None), "aliases", {})
                    while nm in al:  # a rechunked copy holds the values of the array it was made from
                        nm = al[nm]
                    names.append(nm)
                    idx.extend(ix)
                return (f"{self.label}({','.join(names)})", tuple(idx))
        return SymBlock(tuple(shp), blocks[0].dtype, origin, f"{self.label}(...)")


class ShapePreservingFn:
    """Uninterpreted blockwise scan kernel (cumsum/cumprod wrapper): result has the shape of its argument."""

    _pyvc_keywords = ("axis", "include_initial")
    _pyvc_is_gen = False
    __name__ = "scan_kernel"

    def __call__(self, x, **kw):
        return SymBlock(x.shape, x.dtype, None, "cum(...)")


class CumKernel:
    """Uninterpreted blockwise scan kernel (the cumsum/cumprod wrapper): the result has the shape of its argument; along
    `axis` element l is the fold of the argument's elements 0..l (include_initial=False) resp. 0..l-1
    (include_initial=True: the identity first, the final value dropped) — assumed kernel contract."""

    _pyvc_keywords = ("axis", "include_initial")
    _pyvc_is_gen = False
    __name__ = "scan_kernel"

    def __call__(self, x, axis=None, include_initial=False, **kw):
        out = SymBlock(x.shape, x.dtype, None, "cum(...)")
        pg = getattr(x, "pagg", None)
        if pg is not None and pg["axis"] == axis:
            f, n_ax = pg["f"], x.shape[axis]
            if include_initial:
                g = lambda l, f=f: (f(0)[0], f(l)[0])  # noqa: E731
            else:
                g = lambda l, f=f: (f(0)[0], f(l)[1])  # noqa: E731
            out.pagg = dict(axis=axis, f=g, cond=list(pg["cond"]) + [("forall", n_ax - 1, (lambda k, f=f: tz_eq(f(k)[1], f(k + 1)[0])))])
        return out


class ScanBinop(ElemwiseFn):
    """binop(scn, inc) of the scan's last stage: the increment (one element along the axis, broadcast) is the fold of
    everything *before* the block, so the two aggregated intervals must be adjacent: inc.hi == scn.lo"""

    def __call__(self, scn, inc, **kw):
        out = ElemwiseFn.__call__(self, scn, inc, **kw)
        p1, p2 = getattr(scn, "pagg", None), getattr(inc, "pagg", None)
        if p1 is not None and p2 is not None and p1["axis"] == p2["axis"]:
            f1, f2 = p1["f"], p2["f"]
            n_ax = scn.shape[p1["axis"]]
            out.pagg = dict(axis=p1["axis"], f=(lambda l: (f2(0)[0], f1(l)[1])),
                            cond=list(p1["cond"]) + list(p2["cond"]) + [("forall", n_ax, (lambda k: tz_eq(f2(0)[1], f1(k)[0])))])
        return out


@register
class Scan(ArrayOpSpec):
    """scan(array, func, preop, binop, axis, dtype, include_initial, split_every) — cumulative_sum/prod.
    ensures  result has the shape and chunks of `array`; every call of general_blockwise inside it (blockwise scan,
             per-block reduction, increment pairing) meets the universal contract; the internal assert cannot fail;
             **value**: with the input's elements along the axis aggregating the consecutive intervals
             [B(e), B(e+1)) of an arbitrary tiling B (uninterpreted), element e of the result is the fold of
             [B(0), B(e+1)) (include_initial=False) resp. [B(0), B(e)) (include_initial=True) — every piece folded
             exactly once, adjacent pieces only.
    The recursive call is replaced by this very contract (modular treatment of recursion: the contract is proved for
    both values of include_initial and for an arbitrary tiling, which is what the recursive call needs)."""

    target = f"{OPS}:scan"
    props = ("C01", "C12", "C17")
    quick_props = ("C17", "C01")

    def configs(self, tier):
        if tier == "quick":
            return [dict(ndim=1, axis=0, initial=False), dict(ndim=1, axis=0, initial=True)]
        return [dict(ndim=nd, axis=ax, initial=i) for nd in (1, 2) for ax in range(nd) for i in (False, True)]

    def install(self, c):
        S = gb.install(c)
        install_partial_reduce_loop(c, "identity")
        c.eagg = {}

        def scan_contract(it, fn, a, k):
            arr = a[0]
            ax = k["axis"]
            from pyvc.arrays import build_array, fresh_name

            out = build_array(it, fresh_name(it), arr.attrs["_shape"], arr.attrs["_chunks"], k.get("dtype") or arr.attrs["_dtype"],
                              arr.attrs["spec"])
            ea = c.eagg.get(arr.name)
            if ea is not None and ea["axis"] == ax:
                f = ea["f"]
                # requires (obligation at the call site): the input's element intervals are consecutive
                ctx = it.ctx
                ctx.push()
                try:
                    m = ctx.fresh_int("rm", lo=0)
                    ctx.assume(m + 1 < arr.shape[ax])
                    if ctx.feasible():
                        ctx.oblige("scan[recursive call]:requires:input-intervals-are-consecutive", tz_eq(f(m)[1], f(m + 1)[0]), kind="requires")
                finally:
                    ctx.pop()
                if k.get("include_initial"):
                    g = lambda e, bs=None, f=f: (f(0)[0], f(e)[0])  # noqa: E731
                else:
                    g = lambda e, bs=None, f=f: (f(0)[0], f(e)[1])  # noqa: E731
                c.eagg[out.name] = dict(axis=ax, f=g)
            return out

        S[f"{OPS}:scan"] = scan_contract

    def setup(self, c):
        import z3

        from pyvc.sym import wrap

        nd, ax = c.cfg["ndim"], c.cfg["axis"]
        x = sym_array(c, "x", nd)
        split = c.int("split_every", lo=2)
        B = z3.Function("B", z3.IntSort(), z3.IntSort())
        fx = lambda e, bs=None: (wrap(B(tz_(e))), wrap(B(tz_(e) + 1)))  # noqa: E731
        c.eagg[x.name] = dict(axis=ax, f=fx)
        c.x, c.ax, c.split, c.fx = x, ax, split, fx
        c.check_result_block = self._hook(c)
        kw = dict(preop=ReduceFn("reduce", "preop"), binop=ScanBinop("binop"), axis=ax, dtype=x.dtype,
                  include_initial=c.cfg["initial"], split_every=split)
        return (x, CumKernel()), kw

    @staticmethod
    def _hook(c):
        """per general_blockwise call inside scan(): what each element of the task's result block must aggregate; once
        checked, the array the call produces carries that element provenance for its readers"""

        def hook(it, rec, tag, j, blk):
            ctx = it.ctx
            x, ax, fx, split = c.x, c.ax, c.fx, c.split
            cs = x.chunksize[ax]
            n = x.shape[ax]
            start = rec.out_regions[j][ax][0]
            extent = rec.out_regions[j][ax][1]
            name = rec.target_names[j] if getattr(rec, "target_names", None) else None
            if tag == "GB":
                # 1. blockwise scan: element e = fold of its own block up to e
                # (bs: start of the block of x / scanned that contains e — the two arrays share their chunk grid)
                blo = (lambda e, bs: bs if bs is not None else wrap_floor_block(e, cs))
                if c.cfg["initial"]:
                    want = lambda e, bs=None: (fx(blo(e, bs))[0], fx(e)[0])  # noqa: E731
                else:
                    want = lambda e, bs=None: (fx(blo(e, bs))[0], fx(e)[1])  # noqa: E731
            elif tag == "GB#2":
                # 2. per-block reduction: element b = fold of the whole block b of the input
                want = lambda b, bs=None: (fx(b * cs)[0], fx(c.min((b + 1) * cs, n) - 1)[1])  # noqa: E731
            else:
                # 3. increment pairing: element e = fold of everything from the start up to e
                if c.cfg["initial"]:
                    want = lambda e, bs=None: (fx(0)[0], fx(e)[0])  # noqa: E731
                else:
                    want = lambda e, bs=None: (fx(0)[0], fx(e)[1])  # noqa: E731
            check_pagg(ctx, f"{tag}.prefix[out{j}]", blk, (lambda l: want(start + l, start)), extent, ax)
            if name is not None:
                c.eagg[name] = dict(axis=ax, f=want)

        return hook

    def ensures(self, c, a, k, res):
        import z3

        from pyvc.sym import tz

        x = a[0]
        yield "shape", c.eq_tuple(res.shape, x.shape)
        for i in range(x.ndim):
            yield f"numblocks[{i}]", res.numblocks[i] == x.numblocks[i]
        ea = c.eagg.get(res.name)
        yield "result-carries-element-provenance", ea is not None
        if ea is not None:
            e = c.ctx.fresh_int("ge", lo=0)
            c.assume(e < x.shape[c.ax])
            got = ea["f"](e)
            want = (c.fx(0)[0], c.fx(e)[0] if c.cfg["initial"] else c.fx(e)[1])
            yield "element-e-is-the-fold-of-everything-up-to-e", z3.And(tz(got[0]) == tz(want[0]), tz(got[1]) == tz(want[1]))

    def replay_case(self, cfg, model):
        nd = cfg["ndim"]
        return ({"x": (nd, None)}, f"lambda xp, a: xp.cumulative_sum(a['x'], axis={cfg['axis']})",
                f"lambda np, a: np.cumsum(a['x'], axis={cfg['axis']})")
