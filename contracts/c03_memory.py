"""C03 — projected-memory accounting (cubed/primitive/memory.py)."""
from __future__ import annotations

from pyvc.loops import ForInvariant
from pyvc.spec import FuncSpec, register
from pyvc.symseq import UFSeq

MEM = "cubed.primitive.memory"


@register
class CalculateProjectedMem(FuncSpec):
    """calculate_projected_mem(reserved_mem, inputs, operation, output, buffer_copies)
    ensures  result == reserved + sum(inputs)*(1+read) + operation + output*(1+write)  for a list of *any* length
             (loop invariant over `for input in inputs` with the spec function sum_upto), hence
             result >= reserved and monotone in every argument."""

    target = f"{MEM}:calculate_projected_mem"
    props = ("C03",)

    def install(self, c):
        def havoc(interp, fr, j):
            ins = fr.locals["inputs"]
            bc = fr.locals["buffer_copies"]
            fr.locals["projected_mem"] = fr.locals["reserved_mem"] + ins.sum_upto(interp, j) * (1 + bc.read)
            if not isinstance(j, int) or j >= 0:
                ins.sum_step(interp, j)

        def holds(interp, fr, j):
            ins = fr.locals["inputs"]
            bc = fr.locals["buffer_copies"]
            yield "running-total", fr.locals["projected_mem"] == fr.locals["reserved_mem"] + ins.sum_upto(interp, j) * (1 + bc.read)

        c.interp.loop_specs[(f"{MEM}:calculate_projected_mem", 1)] = ForInvariant("calculate_projected_mem.inputs", havoc, holds)

    def setup(self, c):
        res = c.int("reserved", lo=0)
        m = c.int("n_inputs", lo=0)
        ins = UFSeq("inputs", m, lo=0)
        op, out = c.int("operation", lo=0), c.int("output", lo=0)
        BC = c.interp.world.lookup(f"{MEM}:BufferCopies")
        r, w = c.int("read_copies", lo=0), c.int("write_copies", lo=0)
        c.v = (res, ins, op, out, r, w)
        return (res, ins, op, out, BC(read=r, write=w)), {}

    def ensures(self, c, a, k, result):
        res, ins, op, out, r, w = c.v
        yield "formula", result == res + ins.total(c.interp) * (1 + r) + op + out * (1 + w)
        yield "at-least-reserved", result >= res

    def canaries(self, c, a, k, result):
        res, ins, op, out, r, w = c.v
        yield "canary:inputs-counted-once", result == res + ins.total(c.interp) * r + op + out * (1 + w)
        yield "canary:output-counted-once", result == res + ins.total(c.interp) * (1 + r) + op + out * w


@register
class GetBufferCopies(FuncSpec):
    """get_buffer_copies(spec): (2,2) for gs:// or s3:// work directories, (1,1) otherwise; depends on nothing else."""

    target = f"{MEM}:get_buffer_copies"
    props = ("C03", "C19")

    def configs(self, tier):
        return [dict(wd=w) for w in (None, "/tmp/x", "file:///tmp/x", "s3://bucket/p", "gs://bucket/p", "nospec")]

    def setup(self, c):
        from pyvc.arrays import make_spec

        if c.cfg["wd"] == "nospec":
            return (None,), {}
        sp = make_spec(c)
        sp.attrs["_work_dir"] = c.cfg["wd"]
        return (sp,), {}

    def ensures(self, c, a, k, res):
        cloud = c.cfg["wd"] not in (None, "nospec") and c.cfg["wd"].split(":")[0] in ("s3", "gs")
        yield "copies", (res.read, res.write) == ((2, 2) if cloud else (1, 1))
