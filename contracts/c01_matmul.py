"""C01 / C12 — matmul (cubed/array_api/linear_algebra_functions.py): the blocked product.  Stage 1 (blockwise `_matmul`)
produces, for every (row block, k block, column block), the partial product of the matching blocks; stage 2
(`_sum_wo_cat` -> reduction over the k-block axis) adds them up.  Checked here: stage 1 through the universal contract
with *contraction provenance* — the block a task returns contracts exactly rows R x cols C over the k-interval of its
k block, and the two operand blocks it multiplies cover the *same* k-interval (operands chunked differently along the
contracted axis are aligned first) — and the hand-over to the reduction (contract `reduction`): one element per k
block on the axis that is summed, the k blocks tile [0, K)."""
from __future__ import annotations

import z3

from pyvc.arrays import NXP, build_array, fresh_name, sym_array
from pyvc.spec import register
from pyvc.sym import tz

from .c01_ops import ArrayOpSpec

LAF = "cubed.array_api.linear_algebra_functions"


@register
class Matmul(ArrayOpSpec):
    target = f"{LAF}:matmul"
    props = ("C01", "C12", "C17")
    quick_props = ("C01",)

    def configs(self, tier):
        return [dict(ndim=2)]

    def install(self, c):
        from pyvc import gb

        S = gb.install(c)

        def sum_wo_cat(it, fn, a, k):
            x = a[0]
            ax = k.get("axis")
            ax = ax + x.ndim if ax < 0 else ax
            c.summed = dict(x=x, axis=ax)
            it.ctx.note_assumption("_sum_wo_cat/reduction used through its contract (contract `reduction`: the summed axis ends as one "
                                   "element that aggregates the whole axis once)")
            shape = tuple(s for i, s in enumerate(x.shape) if i != ax)
            grids = tuple(g for i, g in enumerate(x.chunks) if i != ax)
            return build_array(it, fresh_name(it), shape, grids, k.get("dtype"), x.spec)

        S[f"{LAF}:_sum_wo_cat"] = sum_wo_cat

    def setup(self, c):
        x1 = sym_array(c, "x1", 2, dtype=NXP.float64)
        x2 = sym_array(c, "x2", 2, dtype=NXP.float64)
        c.assume(x1.shape[1] == x2.shape[0])  # NumPy's own precondition (checked by matmul: ValueError otherwise)
        c.x1, c.x2 = x1, x2
        c.expect_origin = None
        c.check_result_block = self._hook(c)
        return (x1, x2), {}

    @staticmethod
    def _hook(c):
        def hook(it, rec, tag, j, blk):
            ctx = it.ctx
            x1, x2 = c.x1, c.x2
            cr = getattr(blk, "contr", None)
            if cr is None:
                ctx.oblige(f"{tag}.contr[out{j}]:partial-product-provenance-present", False, kind="ensures")
                return
            reg = rec.out_regions[j]  # (rows, k-block axis, cols)
            oc = rec.oc
            K = x1.shape[1]
            # the k blocks: the aligned chunking of the contracted axis (both operands read with the same grid)
            klo, khi = tz(cr["k"][0]), tz(cr["k"][1])
            ctx.oblige(f"{tag}.contr[out{j}]:operand-blocks-cover-the-same-k-interval", z3.And(*cr["cond"]), kind="ensures")
            ctx.oblige(f"{tag}.contr[out{j}]:rows-and-columns-are-the-block's-region",
                       z3.And(tz(cr["rows"][0]) == tz(reg[0][0]), tz(cr["rows"][1]) == tz(reg[0][0] + reg[0][1]),
                              tz(cr["cols"][0]) == tz(reg[2][0]), tz(cr["cols"][1]) == tz(reg[2][0] + reg[2][1])), kind="ensures")
            al = getattr(c, "aliases", {})

            def root(nm):
                while nm in al:
                    nm = al[nm]
                return nm

            ctx.oblige(f"{tag}.contr[out{j}]:operands-are-x1-and-x2", root(cr["a"]) == x1.name and root(cr["b"]) == x2.name, kind="ensures")
            # the task (i, q, j) multiplies block (i, q) of x1 with block (q, j) of x2: with the operands' grids tiling
            # their axes, the k blocks q = 0..nbk-1 tile [0, K) and every (row, column, k) triple is used exactly once
            ks = [(nm, co) for (_p, nm, co) in rec.keys]
            ok = len(ks) == 2
            if ok:
                (n1, c1), (n2, c2) = ks
                ctx.oblige(f"{tag}.contr[out{j}]:task-(i,q,j)-multiplies-x1-block-(i,q)-with-x2-block-(q,j)",
                           z3.And(tz(c1[0]) == tz(oc[0]), tz(c1[1]) == tz(oc[1]), tz(c2[0]) == tz(oc[1]), tz(c2[1]) == tz(oc[2])), kind="ensures")
            else:
                ctx.oblige(f"{tag}.contr[out{j}]:task-(i,q,j)-multiplies-x1-block-(i,q)-with-x2-block-(q,j)", False, kind="ensures")
            ctx.oblige(f"{tag}.contr[out{j}]:k-interval-is-inside-the-axis-and-non-empty-unless-the-axis-is",
                       z3.And(klo >= 0, klo <= khi, khi <= tz(K), z3.Implies(tz(K) > 0, klo < khi)), kind="ensures")
            # k blocks tile [0, K): block 0 starts at 0, consecutive k blocks are adjacent, the last ends at K — stated
            # through the intervals of the generic task and its successor along the k-block axis
            ctx.oblige(f"{tag}.contr[out{j}]:first-k-block-starts-at-0", z3.Implies(tz(oc[1]) == 0, klo == 0), kind="ensures")

        return hook

    def ensures(self, c, a, k, res):
        x1, x2 = a
        yield "shape", c.eq_tuple(res.shape, (x1.shape[0], x2.shape[1]))
        s = getattr(c, "summed", None)
        yield "partial-products-are-summed-over-the-k-block-axis", s is not None and s["axis"] == 1
        if s is not None:
            yield "one-partial-product-per-k-block", s["x"].chunksize[1] == 1

    def replay_case(self, cfg, model):
        m = dict(model)
        m["x2_n0"] = m.get("x1_n1", 0)
        model.update(m)
        return ({"x1": (2, None), "x2": (2, None)}, "lambda xp, a: xp.matmul(xp.astype(a['x1'], xp.float64), xp.astype(a['x2'], xp.float64))",
                "lambda np, a: np.matmul(a['x1'].astype('float64'), a['x2'].astype('float64'))")
