"""C08 — the parallel map: failures retried and surfaced, exactly one result per input
(cubed/runtime/asyncio.py async_map_unordered, cubed/runtime/backup.py should_launch_backup,
cubed/runtime/executors/local.py threads_create_futures_func).

The real body of async_map_unordered is executed symbolically over sets/dicts of an uninterpreted future sort.
Environment contracts: asyncio.wait returns a partition (finished, rest) of its argument with every finished
future done; future outcomes are oracles (done/failed, monotone); create_futures_func returns one fresh future per
input; batched() yields non-empty, pairwise disjoint batches.  Ghost state: created futures, delivered inputs,
drawn inputs, inputs with a backup.  Safety only: termination/liveness is not decided by this contract."""
from __future__ import annotations

import z3

from pyvc.interp import Opaque
from pyvc.loops import WhileInvariant
from pyvc.spec import FuncSpec, register
from pyvc.sym import PyExc, Unsupported, tb, tz, wrap
from pyvc.symsets import (FUT, INP, DictKeys, FutEnv, FutVal, InpVal, PairList, ResultOf, SymDict, SymSet,
                          TaskFailure, _fresh_arr, _var)

AMU = "cubed.runtime.asyncio:async_map_unordered"


def A(*xs):
    return z3.And(*xs) if xs else z3.BoolVal(True)


class Batch:
    def __init__(self, arr):
        self.arr = arr


class BatchIter:
    """batched(input, n): an iterator of non-empty, pairwise disjoint batches; exhausted at an arbitrary point."""

    def __init__(self, c, env):
        self.c, self.env = c, env

    def _pyvc_next(self, interp, *default):
        ctx = interp.ctx
        env = self.env
        if env.exhausted or ctx.branch(ctx.fresh_bool("no_more_batches").t):
            env.exhausted = True
            if default:
                return default[0]
            raise PyExc(StopIteration, ())
        b = _fresh_arr(ctx, "batch", INP, z3.BoolSort())
        i = z3.Const("i_b", INP)
        w = _var(INP, ctx, "wit")
        ctx.assume(z3.Select(b, w))  # non-empty
        ctx.assume(z3.ForAll([i], z3.Implies(z3.Select(b, i), z3.Not(z3.Select(env.drawn, i)))))  # disjoint from earlier batches
        nd = _fresh_arr(ctx, "drawn", INP, z3.BoolSort())
        ctx.assume(z3.ForAll([i], z3.Select(nd, i) == z3.Or(z3.Select(env.drawn, i), z3.Select(b, i))))
        env.drawn = nd
        return Batch(b)


class State:
    """The loop-carried variables of async_map_unordered as terms (for invariants)."""

    NAMES = ("tasks", "pending", "start_times", "end_times", "backups")

    def __init__(self, fr, env):
        L = fr.locals
        self.env = env
        self.t_dom, self.t_val = _dict_terms(L["tasks"], INP)
        self.pending = _set_term(L["pending"])
        self.st_dom = _dict_terms(L["start_times"], z3.RealSort())[0]
        self.et_dom = _dict_terms(L["end_times"], z3.RealSort())[0]
        self.b_dom, self.b_val = _dict_terms(L["backups"], FUT)


def _set_term(v):
    if isinstance(v, SymSet):
        return v.arr
    if isinstance(v, (set, frozenset)) or (hasattr(v, "items") and not v.items):
        if len(v) == 0:
            return z3.K(FUT, z3.BoolVal(False))
    raise Unsupported(f"not a set of futures: {type(v).__name__}")


def _dict_terms(v, vsort):
    if isinstance(v, SymDict):
        return v.dom, v.val
    if isinstance(v, dict) and not v:
        dflt = {INP: z3.Const("dflt_inp", INP), FUT: z3.Const("dflt_fut", FUT)}.get(vsort, z3.RealVal(0))
        return z3.K(FUT, z3.BoolVal(False)), z3.K(FUT, dflt)
    raise Unsupported(f"not a dict over futures: {type(v).__name__}")


def outer_invariant(c, s: State, round_=None):
    """Invariant at the head of `while pending:` (and, with `round_` = (finished, processed, superseded), inside
    `for task in finished`). Returns [(name, term)]."""
    env = s.env
    f, g = z3.Const("f", FUT), z3.Const("g", FUT)
    i = z3.Const("i", INP)
    sel = z3.Select
    inp = env.input_of
    if round_ is None:
        live = lambda x: sel(s.pending, x)
    else:
        fin, P, S = round_
        live = lambda x: z3.Or(sel(s.pending, x), A(sel(fin, x), z3.Not(sel(P, x)), z3.Not(sel(S, x))))
    inv = []
    inv.append(("H1:pending-are-created", z3.ForAll([f], z3.Implies(sel(s.pending, f), sel(env.created, f)))))
    inv.append(("H2:tasks-maps-every-created-future-to-its-input", z3.ForAll([f], A(sel(s.t_dom, f) == sel(env.created, f), z3.Implies(sel(env.created, f), sel(s.t_val, f) == inp(f))))))
    inv.append(("H3:start-times-cover-pending-and-finished-timings", z3.ForAll([f], A(z3.Implies(sel(s.pending, f), sel(s.st_dom, f)), z3.Implies(sel(s.et_dom, f), sel(s.st_dom, f))))))
    inv.append(("H4:backups-is-a-symmetric-pairing-of-two-futures-of-one-input", z3.ForAll([f], z3.Implies(sel(s.b_dom, f), A(
        sel(env.created, f), sel(s.b_dom, sel(s.b_val, f)), sel(s.b_val, sel(s.b_val, f)) == f, sel(s.b_val, f) != f,
        inp(sel(s.b_val, f)) == inp(f), sel(env.created, sel(s.b_val, f)), env.is_backup(f) != env.is_backup(sel(s.b_val, f)))))))
    inv.append(("H5:at-most-an-original-and-a-backup-per-input", z3.ForAll([f, g], z3.Implies(
        A(sel(env.created, f), sel(env.created, g), f != g, inp(f) == inp(g)),
        A(env.is_backup(f) != env.is_backup(g), z3.Or(A(sel(s.b_dom, f), sel(s.b_val, f) == g), sel(env.yielded, inp(f))))))))
    inv.append(("H6:created-futures-belong-to-drawn-inputs", z3.ForAll([f], z3.Implies(sel(env.created, f), sel(env.drawn, inp(f))))))
    inv.append(("H7:live-futures-belong-to-undelivered-inputs", z3.ForAll([f], z3.Implies(live(f), z3.Not(sel(env.yielded, inp(f)))))))
    inv.append(("H8:backed-inputs-keep-their-pairing-while-live", z3.ForAll([f], A(
        z3.Implies(A(live(f), sel(env.backed, inp(f))), sel(s.b_dom, f)),
        z3.Implies(A(sel(env.created, f), env.is_backup(f)), sel(env.backed, inp(f))),
        z3.Implies(sel(s.b_dom, f), sel(env.backed, inp(f)))))))
    inv.append(("H9:not-done-futures-are-pending-unless-cancelled", z3.ForAll([f], z3.Implies(
        A(sel(env.created, f), z3.Not(env.done(f)), z3.Not(sel(env.cancelled, f))), sel(s.pending, f)))))
    inv.append(("H10:cancelled-only-after-the-twin-delivered", z3.ForAll([f], z3.Implies(sel(env.cancelled, f), A(sel(env.created, f), sel(env.yielded, inp(f)))))))
    inv.append(("H11:every-created-future-is-live-delivered-or-a-suppressed-failure-with-a-live-twin", z3.ForAll([f], z3.Implies(
        sel(env.created, f), z3.Or(live(f), sel(env.yielded, inp(f)),
                                   A(env.failed(f), sel(s.b_dom, f), live(sel(s.b_val, f))))))))
    if not c.cfg["backups"]:
        inv.append(("H16:without-backups-there-are-no-pairs", A(z3.ForAll([f], z3.Not(sel(s.b_dom, f))), z3.ForAll([i], z3.Not(sel(env.backed, i))))))
    inv.append(("H14:delivered-and-backed-inputs-were-drawn", z3.ForAll([i], A(
        z3.Implies(sel(env.yielded, i), sel(env.drawn, i)), z3.Implies(sel(env.backed, i), sel(env.drawn, i))))))
    inv.append(("H12:every-drawn-input-has-its-original-future", z3.ForAll([i], z3.Implies(sel(env.drawn, i), A(
        sel(env.created, env.orig_of(i)), inp(env.orig_of(i)) == i)))))
    if round_ is not None:
        fin, P, S = round_
        inv.append(("J1:finished-are-done-created-and-not-pending", z3.ForAll([f], z3.Implies(sel(fin, f), A(
            env.done(f), sel(env.created, f), z3.Not(sel(s.pending, f)), sel(s.st_dom, f))))))
        inv.append(("J2:superseded-futures-belong-to-delivered-inputs", z3.ForAll([f], z3.Implies(sel(S, f), A(sel(env.created, f), sel(env.yielded, inp(f)))))))
        inv.append(("J3:processed-are-finished", z3.ForAll([f], z3.Implies(sel(P, f), sel(fin, f)))))
    return inv


def install_env(c, return_stats):
    it = c.interp
    ctx = c.ctx
    env = FutEnv(ctx, return_stats=return_stats)
    env.orig_of = z3.Function("orig_of", INP, FUT)
    c.env = env
    NO = it.world.native_overrides
    S = it.world.summaries

    def fresh_time(*a, **k):
        return ctx.fresh_real("t")

    NO["time.time"] = fresh_time
    NO["time.monotonic"] = fresh_time

    def aio_wait(pending, return_when=None, timeout=None):
        """asyncio.wait: (finished, rest) partitions `pending`; finished futures are done (possibly none: timeout)."""
        p = pending.arr
        fin = _fresh_arr(ctx, "finished", FUT, z3.BoolSort())
        rest = _fresh_arr(ctx, "rest", FUT, z3.BoolSort())
        x = z3.Const("x_w", FUT)
        ctx.assume(z3.ForAll([x], A(z3.Select(p, x) == z3.Or(z3.Select(fin, x), z3.Select(rest, x)),
                                     z3.Not(A(z3.Select(fin, x), z3.Select(rest, x))),
                                     z3.Implies(z3.Select(fin, x), env.done(x)))))
        ctx.note_assumption("asyncio.wait returns a partition (finished, rest) of its argument; finished futures are done")
        c.last_finished = fin
        return (SymSet(fin, env), SymSet(rest, env))

    NO["asyncio.tasks.wait"] = aio_wait

    def batched(itx, fn, a, k):
        n = a[1]
        if it.truth(n < 1):
            raise PyExc(ValueError, ("n must be at least one",))
        return BatchIter(c, env)

    S["cubed.runtime.utils:batched"] = batched

    def slb(itx, fn, a, k):
        """should_launch_backup(task, now, start_times, end_times): requires task in start_times and
        keys(end_times) <= keys(start_times) (its subscripts); returns an arbitrary bool."""
        task, now, st, et = a[:4]
        f = z3.Const("f_slb", FUT)
        ctx.oblige("should_launch_backup:requires:task-has-a-start-time", z3.Select(st.dom, task.t), kind="requires")
        etd = _dict_terms(et, z3.RealSort())[0]
        ctx.oblige("should_launch_backup:requires:ended-tasks-have-start-times", z3.ForAll([f], z3.Implies(z3.Select(etd, f), z3.Select(st.dom, f))), kind="requires")
        return ctx.fresh_bool("launch_backup")

    S["cubed.runtime.backup:should_launch_backup"] = slb

    def create(inputs, name=None, **kw):
        """create_futures_func: one fresh future per input of the batch (or of the whole input)."""
        if isinstance(inputs, Batch):
            b = inputs.arr
        elif isinstance(inputs, WholeInput):
            b = inputs.arr
            i0 = z3.Const("i_w", INP)
            nd = _fresh_arr(ctx, "drawn", INP, z3.BoolSort())
            ctx.assume(z3.ForAll([i0], z3.Select(nd, i0) == z3.Or(z3.Select(env.drawn, i0), z3.Select(b, i0))))
            env.drawn = nd
            env.exhausted = True
        else:
            raise Unsupported("create_futures_func on an unexpected input")
        new = _fresh_arr(ctx, "newfut", FUT, z3.BoolSort())
        x, y = z3.Const("x_c", FUT), z3.Const("y_c", FUT)
        i = z3.Const("i_c", INP)
        ctx.assume(z3.ForAll([x], z3.Implies(z3.Select(new, x), A(z3.Not(z3.Select(env.created, x)), z3.Select(b, env.input_of(x)), z3.Not(env.is_backup(x)), z3.Not(z3.Select(env.cancelled, x))))))
        ctx.assume(z3.ForAll([x, y], z3.Implies(A(z3.Select(new, x), z3.Select(new, y), env.input_of(x) == env.input_of(y)), x == y)))
        ctx.assume(z3.ForAll([i], z3.Implies(z3.Select(b, i), A(z3.Select(new, env.orig_of(i)), env.input_of(env.orig_of(i)) == i))))
        env.created = env.union(ctx, env.created, new, FUT)
        ctx.effect("create_futures", name)
        return PairList(new, env)

    def create_backup(inputs, **kw):
        if not (isinstance(inputs, list) and len(inputs) == 1 and isinstance(inputs[0], InpVal)):
            raise Unsupported("backup creation for other than one input")
        i = inputs[0]
        ctx.oblige("at-most-one-backup-per-input", z3.Not(z3.Select(env.backed, i.t)), kind="ghost")
        nf = _var(FUT, ctx, "backupfut")
        ctx.assume(A(z3.Not(z3.Select(env.created, nf)), env.input_of(nf) == i.t, env.is_backup(nf), z3.Not(z3.Select(env.cancelled, nf))))
        env.created = z3.Store(env.created, nf, True)
        env.backed = z3.Store(env.backed, i.t, True)
        ctx.effect("create_backup_future")
        return [(i, FutVal(nf, env))]

    c.create, c.create_backup = create, create_backup

    def yield_hook(itx, fr, v):
        r = v[0] if isinstance(v, tuple) else v
        if not isinstance(r, ResultOf):
            raise Unsupported("yield of something that is not a task result")
        t = r.fut.t
        i = env.input_of(t)
        ctx.oblige("yield:only-a-successful-future", A(env.done(t), z3.Not(env.failed(t))), kind="ghost")
        ctx.oblige("yield:exactly-once-per-input", z3.Not(z3.Select(env.yielded, i)), kind="ghost")
        env.yielded = z3.Store(env.yielded, i, True)

    it.yield_hook = yield_hook
    return env


class WholeInput:
    def __init__(self, arr):
        self.arr = arr


def havoc_state(c, fr, keep_round=False):
    """Loop-carried variables and ghost sets become arbitrary (fresh) values."""
    ctx, env = c.ctx, c.env
    fr.locals["tasks"] = SymDict(_fresh_arr(ctx, "tasks_dom", FUT, z3.BoolSort()), _fresh_arr(ctx, "tasks_val", FUT, INP), env, INP)
    fr.locals["pending"] = SymSet(_fresh_arr(ctx, "pending", FUT, z3.BoolSort()), env)
    fr.locals["start_times"] = SymDict(_fresh_arr(ctx, "st_dom", FUT, z3.BoolSort()), _fresh_arr(ctx, "st_val", FUT, z3.RealSort()), env, z3.RealSort())
    fr.locals["end_times"] = SymDict(_fresh_arr(ctx, "et_dom", FUT, z3.BoolSort()), _fresh_arr(ctx, "et_val", FUT, z3.RealSort()), env, z3.RealSort())
    fr.locals["backups"] = SymDict(_fresh_arr(ctx, "b_dom", FUT, z3.BoolSort()), _fresh_arr(ctx, "b_val", FUT, FUT), env, FUT)
    env.created = env.fresh_set("created")
    env.cancelled = env.fresh_set("cancelled")
    env.yielded = env.fresh_set("yielded", INP)
    env.drawn = env.fresh_set("drawn", INP)
    env.backed = env.fresh_set("backed", INP)
    if "inputs" in fr.locals:
        fr.locals["inputs"] = Opaque("inputs")
    if not env.exhausted and c.cfg["batch"]:
        env.exhausted = False


def _cover(ctx, name):
    """Non-vacuity: the hypotheses of a generic iteration must be satisfiable (checked on every run)."""
    if ctx.prefix:  # once per configuration (on the first path) is enough for the vacuity guard
        return
    use, ctx.use_cvc5 = ctx.use_cvc5, False
    try:
        r, _ = ctx._check(timeout_ms=3000)
    finally:
        ctx.use_cvc5 = use
    from pyvc.sym import Obligation

    # quantified hypotheses: z3 rarely answers `sat`; what the guard needs is that they are *not refutable*
    # (a contradictory invariant is found unsat at once). unknown = not refuted within the budget.
    res = "failed" if r == z3.unsat else "discharged"
    be = "z3" if r == z3.sat else ("z3" if r == z3.unsat else "z3:not-refuted-in-3s")
    ctx.obligations.append(Obligation(name, "cover", res, be, 0.0,
                                      detail="hypotheses contradictory: every obligation below would be vacuous" if res == "failed" else None))


def while_spec(c):
    env = c.env

    def havoc(interp, fr):
        was_exhausted = env.exhausted
        havoc_state(c, fr)
        if c.cfg["batch"] and not was_exhausted:
            # whether all batches have been drawn is part of the arbitrary state
            env.exhausted = bool(c.ctx.branch(c.ctx.fresh_bool("already_exhausted").t))
        s = State(fr, env)
        for nm, t in outer_invariant(c, s):
            c.ctx.assume(t)
        c.ctx.assume(exit_ok(c, s))
        x = z3.Const("x_cov", FUT)
        c.ctx.push()
        c.ctx.assume(z3.Exists([x], z3.Select(s.pending, x)))
        _cover(c.ctx, "loop[async_map_unordered.while-pending]:cover:invariant-with-pending-futures-is-satisfiable")
        c.ctx.pop()

    def holds(interp, fr):
        s = State(fr, env)
        for nm, t in outer_invariant(c, s):
            yield nm, t
        yield "H13:pending-empty-only-when-all-batches-drawn", exit_ok(c, s)

    return WhileInvariant("async_map_unordered.while-pending", havoc, holds)


def exit_ok(c, s):
    x = z3.Const("x_e", FUT)
    if not c.cfg["batch"] or c.env.exhausted:
        return z3.BoolVal(True)
    return z3.Exists([x], z3.Select(s.pending, x))


class FinishedLoop:
    """`for task in finished`: processed-subset rule. Invariant = outer invariant generalised to `live` futures
    (pending, or finished and neither processed nor superseded) + J1..J3."""

    def __init__(self, c):
        self.c = c
        self.name = "async_map_unordered.for-task-in-finished"

    def _round(self, fr, P):
        fin = fr.locals["finished"].arr
        S = fr.locals.get("superseded")
        S = _set_term(S) if S is not None else z3.K(FUT, z3.BoolVal(False))
        return (fin, P, S)

    def run_for(self, interp, st, fr, it):
        from pyvc.interp import _Continue, _Break

        c, ctx, env = self.c, self.c.ctx, self.c.env
        if not isinstance(it, SymSet):
            raise Unsupported("finished is not a symbolic set")
        fin = it.arr
        emptyP = z3.K(FUT, z3.BoolVal(False))
        s0 = State(fr, env)
        for nm, t in outer_invariant(c, s0, self._round(fr, emptyP)):
            ctx.oblige(f"loop[{self.name}]:entry:{nm}", t, kind="invariant")
        saved = dict(fr.locals)
        saved_env = (env.created, env.cancelled, env.yielded, env.drawn, env.backed, env.exhausted)
        # ---- generic iteration
        ctx.push()
        try:
            exh = env.exhausted
            havoc_state(c, fr)
            env.exhausted = exh
            fr.locals["finished"] = SymSet(fin, env)
            if "superseded" in saved:
                fr.locals["superseded"] = SymSet(env.fresh_set("superseded"), env)
            P = env.fresh_set("processed")
            s = State(fr, env)
            for nm, t in outer_invariant(c, s, self._round(fr, P)):
                ctx.assume(t)
            t_ = _var(FUT, ctx, "task")
            ctx.assume(A(z3.Select(fin, t_), z3.Not(z3.Select(P, t_))))
            _cover(ctx, f"loop[{self.name}]:cover:invariant-and-an-unprocessed-task-are-satisfiable")
            interp.assign(st.target, FutVal(t_, env), fr)
            try:
                interp.exec_block(st.body, fr)
            except _Continue:
                pass
            except _Break:
                raise Unsupported("break in the finished loop")
            except PyExc as e:
                ctx.check_exception_now(e)
                raise
            P2 = z3.Store(P, t_, True)
            s2 = State(fr, env)
            for nm, t in outer_invariant(c, s2, self._round(fr, P2)):
                ctx.oblige(f"loop[{self.name}]:preserved:{nm}", t, kind="invariant")
        finally:
            ctx.pop()
        # ---- exit: all of finished processed
        fr.locals.clear()
        fr.locals.update(saved)
        exh = env.exhausted
        havoc_state(c, fr)
        env.exhausted = exh
        fr.locals["finished"] = SymSet(fin, env)
        if "superseded" in saved:
            fr.locals["superseded"] = SymSet(env.fresh_set("superseded"), env)
        s = State(fr, env)
        for nm, t in outer_invariant(c, s, self._round(fr, fin)):
            ctx.assume(t)


class BackupLoop:
    """`for task in copy.copy(pending)`: the iterated set is a snapshot; invariant = the outer invariant, plus
    every snapshot element not yet visited is still pending."""

    def __init__(self, c):
        self.c = c
        self.name = "async_map_unordered.for-task-in-pending-copy"

    def run_for(self, interp, st, fr, it):
        from pyvc.interp import _Continue

        c, ctx, env = self.c, self.c.ctx, self.c.env
        snap = it.arr
        s0 = State(fr, env)
        for nm, t in outer_invariant(c, s0):
            ctx.oblige(f"loop[{self.name}]:entry:{nm}", t, kind="invariant")
        saved = dict(fr.locals)
        x = z3.Const("x_bl", FUT)
        ctx.push()
        try:
            exh = env.exhausted
            havoc_state(c, fr)
            env.exhausted = exh
            s = State(fr, env)
            for nm, t in outer_invariant(c, s):
                ctx.assume(t)
            P = env.fresh_set("visited")
            ctx.assume(z3.ForAll([x], z3.Implies(A(z3.Select(snap, x), z3.Not(z3.Select(P, x))), z3.Select(s.pending, x))))
            t_ = _var(FUT, ctx, "task")
            ctx.assume(A(z3.Select(snap, t_), z3.Not(z3.Select(P, t_))))
            _cover(ctx, f"loop[{self.name}]:cover:invariant-and-an-unvisited-task-are-satisfiable")
            interp.assign(st.target, FutVal(t_, env), fr)
            try:
                interp.exec_block(st.body, fr)
            except _Continue:
                pass
            except PyExc as e:
                ctx.check_exception_now(e)
                raise
            s2 = State(fr, env)
            for nm, t in outer_invariant(c, s2):
                ctx.oblige(f"loop[{self.name}]:preserved:{nm}", t, kind="invariant")
            ctx.oblige(f"loop[{self.name}]:preserved:unvisited-snapshot-elements-still-pending",
                       z3.ForAll([x], z3.Implies(A(z3.Select(snap, x), z3.Not(z3.Select(z3.Store(P, t_, True), x))), z3.Select(s2.pending, x))), kind="invariant")
        finally:
            ctx.pop()
        fr.locals.clear()
        fr.locals.update(saved)
        exh = env.exhausted
        havoc_state(c, fr)
        env.exhausted = exh
        s = State(fr, env)
        for nm, t in outer_invariant(c, s):
            ctx.assume(t)


@register
class AsyncMapUnordered(FuncSpec):
    """async_map_unordered(create_futures_func, input, use_backups, create_backup_futures_func, batch_size, return_stats)
    ensures (safety)
      yield:exactly-once-per-input           no input is delivered twice
      yield:only-a-successful-future         a delivered result comes from a future that completed without error
      raise-only-if-no-attempt-can-succeed   a task's error leaves the map only if every other submission of that input
                                             has failed as well (none pending, none successful)
      exit-complete                          on normal exit all batches were drawn and every drawn input was delivered
      at-most-one-backup-per-input           an input is submitted at most twice (original + one backup)
      no incidental exception                KeyError / StopIteration / IndexError cannot leave the generator
    by the loop invariants H1..H13 (outer loop) and their generalisation inside `for task in finished`."""

    target = AMU
    props = ("C08", "C13")
    timeout_ms = 30000
    trusted = ("asyncio.wait, future outcome oracles, create_futures_func (one fresh future per input) and batched() "
               "(non-empty pairwise disjoint batches) are environment contracts",
               "liveness (the map never hangs / terminates when every input eventually succeeds) is not decided")

    def configs(self, tier):
        return [dict(backups=b, batch=bt, stats=True) for b in (False, True) for bt in (False, True)]

    def install(self, c):
        env = install_env(c, return_stats=c.cfg["stats"])
        L = c.interp.loop_specs
        L[(AMU, 1)] = while_spec(c)
        L[(AMU, 2)] = FinishedLoop(c)
        L[(AMU, 3)] = BackupLoop(c)

    def setup(self, c):
        env = c.env
        inp = env.fresh_set("all_inputs", INP)
        kw = dict(use_backups=c.cfg["backups"], create_backup_futures_func=c.create_backup,
                  batch_size=c.int("batch_size", lo=1) if c.cfg["batch"] else None, return_stats=c.cfg["stats"], name="op")
        if c.cfg["batch"]:
            # batched(input, n) must yield at least one batch for next() not to raise: pipelines have >= 1 task
            c.ctx.note_assumption("the input iterable is non-empty (every operation has at least one task)")
            c.first_batch_required = True
        return (c.create, WholeInput(inp)), kw

    def call(self, c, args, kwargs):
        if c.cfg["batch"]:
            # the first next(input_batches) has no default: non-emptiness of the input is the caller-side requirement
            env = c.env
            orig_next = BatchIter._pyvc_next

            first = {"n": 0}

            def nxt(self_, interp, *default):
                first["n"] += 1
                if first["n"] == 1 and not default:
                    saved = interp.ctx.branch
                    b = _fresh_arr(interp.ctx, "batch", INP, z3.BoolSort())
                    w = _var(INP, interp.ctx, "wit")
                    i = z3.Const("i_b0", INP)
                    interp.ctx.assume(z3.Select(b, w))
                    interp.ctx.assume(z3.ForAll([i], z3.Implies(z3.Select(b, i), z3.Not(z3.Select(env.drawn, i)))))
                    nd = _fresh_arr(interp.ctx, "drawn", INP, z3.BoolSort())
                    interp.ctx.assume(z3.ForAll([i], z3.Select(nd, i) == z3.Or(z3.Select(env.drawn, i), z3.Select(b, i))))
                    env.drawn = nd
                    return Batch(b)
                return orig_next(self_, interp, *default)

            BatchIter._pyvc_next = nxt
            try:
                return super().call(c, args, kwargs)
            finally:
                BatchIter._pyvc_next = orig_next
        return super().call(c, args, kwargs)

    def ensures(self, c, a, k, res):
        env = c.env
        i = z3.Const("i_x", INP)
        yield "exit-complete:all-batches-drawn", bool(env.exhausted) or not c.cfg["batch"]
        yield "exit-complete:every-drawn-input-delivered", z3.ForAll([i], z3.Implies(z3.Select(env.drawn, i), z3.Select(env.yielded, i)))

    def raises(self, c, a, k, e):
        env = c.env
        if e.etype is TaskFailure:
            t = e.fut.t
            g = z3.Const("g_r", FUT)
            return ("raise-only-if-no-attempt-can-succeed", A(env.failed(t), z3.ForAll([g], z3.Implies(
                A(z3.Select(env.created, g), g != t, env.input_of(g) == env.input_of(t)),
                A(env.done(g), env.failed(g))))))
        return None

    def replay(self, cfg, model, ob):
        # the verifier's counterexamples are abstract (sets of futures): they are realised by the three
        # canonical schedules below on the real generator, driven by scripted futures on a real event loop
        name = ob["name"]
        sel = []
        if "H3" in name or "should_launch_backup" in name or "KeyError" in name:
            sel = ["S1"]
        elif "exactly-once" in name or "H7" in name:
            sel = ["S2"]
        elif "raise-only-if" in name:
            sel = ["S3"]
        elif "H13" in name or "exit-complete" in name or "H11" in name:
            sel = ["S4", "S5"]
        else:
            sel = ["S1", "S2", "S3", "S4", "S5"]
        return f"""
import sys
sys.path.insert(0, '/verif')
from pyvc.replay_async import verdict
n = 30
S = dict(
  S1=dict(n=n, batch_size=10, use_backups=True, backup_for=[], rounds=[[("orig", i, "ok")] for i in range(n)]),
  S2=dict(n=12, batch_size=None, use_backups=True, backup_for=[3], rounds=[[("orig", i, "ok")] for i in range(12) if i != 3] + [[("orig", 3, "ok"), ("backup", 3, "ok")]]),
  S3=dict(n=12, batch_size=None, use_backups=True, backup_for=[3], rounds=[[("orig", i, "ok")] for i in range(12) if i != 3] + [[("backup", 3, "ok"), ("orig", 3, "fail")]]),
  S4=dict(n=6, batch_size=2, use_backups=False, rounds=[[("orig", 0, "ok"), ("orig", 1, "ok")], [("orig", 2, "ok"), ("orig", 3, "ok")], [("orig", 4, "ok"), ("orig", 5, "ok")]]),
  S5=dict(n=5, batch_size=2, use_backups=False, rounds=[[("orig", 0, "ok"), ("orig", 1, "ok")], [("orig", 2, "ok"), ("orig", 3, "ok")], [("orig", 4, "fail")]]),
)
reproduced, detail = False, ""
for k in {sel!r}:
    r, d = verdict(S[k])
    detail += f"{{k}}: {{d}}; "
    reproduced = reproduced or r
"""


@register
class ShouldLaunchBackup(FuncSpec):
    """should_launch_backup(task, now, start_times, end_times, min_tasks, min_completed_fraction=0.5, slow_factor)
    requires  task in start_times and keys(end_times) <= keys(start_times)   (derived from its subscripts; the caller
              side of this precondition is invariant H3 of async_map_unordered)
    ensures   never raises (no KeyError, no IndexError at completed_durations[n]); False whenever fewer than min_tasks
              tasks were started or at most ceil(len(start)*fraction)-1 have completed; otherwise True iff the task's
              running time exceeds slow_factor times the n-th smallest completed duration."""

    target = "cubed.runtime.backup:should_launch_backup"
    props = ("C08",)
    bounded = ("sizes of start_times / end_times enumerated up to 4 (times, thresholds symbolic)",)

    def configs(self, tier):
        out = []
        for ks in (1, 2, 3, 4):
            for ke in range(0, ks + 1):
                out.append(dict(ks=ks, ke=ke))
        return out if tier != "quick" else [x for x in out if x["ks"] <= 3]

    def setup(self, c):
        ks, ke = c.cfg["ks"], c.cfg["ke"]
        keys = [f"fut{i}" for i in range(ks)]
        start = {k: c.ctx.fresh_real("start") for k in keys}
        end = {k: c.ctx.fresh_real("end") for k in keys[:ke]}
        for k in end:
            c.assume(end[k] >= start[k])
        now = c.ctx.fresh_real("now")
        mt = c.int("min_tasks", lo=0)
        sf = c.ctx.fresh_real("slow_factor")
        c.assume(sf >= 0)
        c.v = (keys, start, end, now, mt, sf)
        return (keys[-1], now, start, end), dict(min_tasks=mt, slow_factor=sf)

    def ensures(self, c, a, k, res):
        keys, start, end, now, mt, sf = c.v
        ks, ke = len(start), len(end)
        import math

        n = math.ceil(ks * 0.5) - 1
        yield "false-below-min-tasks", c.implies(ks < mt, c.Not(res) if not isinstance(res, bool) else (not res))
        if ke <= n:
            yield "false-until-enough-completed", res is False
        else:
            durs = [end[x] - start[x] for x in end]
            dur = now - start[keys[-1]]
            # the n-th smallest duration d: at least n+1 durations <= d and at least ke-n durations >= d
            cands = []
            for d in durs:
                le = sum([c.ite(x <= d, 1, 0) for x in durs])
                ge = sum([c.ite(x >= d, 1, 0) for x in durs])
                cands.append(c.And(le >= n + 1, ge >= ke - n, c.Or(c.And(res, dur > d * sf), c.And(c.Not(res), c.Not(dur > d * sf)))))
            yield "true-iff-slower-than-factor-times-nth-completed-duration", c.implies(ks >= mt, c.Or(*cands))


@register
class ThreadsCreateFuturesFunc(FuncSpec):
    """threads_create_futures_func(concurrent_executor, function, retries): with retries != 0 the task function is
    wrapped in tenacity.Retrying(reraise=True, stop=stop_after_attempt(retries + 1)) — at most retries+1 attempts,
    the last error re-raised; with retries == 0 it is submitted as is (single attempt). The returned
    create_futures_func submits exactly one future per input, in order, paired with its input."""

    target = "cubed.runtime.executors.local:threads_create_futures_func"
    props = ("C08",)

    def configs(self, tier):
        return [dict(zero=z, n=n) for z in (False, True) for n in (0, 1, 3)]

    def install(self, c):
        W = c.interp.world
        rec = c.ctx

        class Retryer:
            def __init__(self, **kw):
                self.kw = kw

            def __call__(self, fn, *a, **k):
                raise Unsupported("retryer executed")

        W.externals["tenacity.Retrying"] = lambda **kw: Retryer(**kw)
        W.externals["tenacity.stop_after_attempt"] = lambda n: ("stop_after_attempt", n)
        W.native_overrides["asyncio.futures.wrap_future"] = lambda f, **k: ("wrapped", f)
        c.Retryer = Retryer

    def setup(self, c):
        from pyvc.stubs import Recorder

        retries = 0 if c.cfg["zero"] else c.int("retries", lo=1)
        fn = Opaque("task-function")

        class Pool:
            def __init__(self):
                self.calls = []

            def submit(self, f, i, **kw):
                self.calls.append((f, i, kw))
                return ("future", len(self.calls) - 1)

        c.pool, c.fn, c.retries = Pool(), fn, retries
        return (c.pool, fn), dict(retries=retries)

    def ensures(self, c, a, k, res):
        import functools

        inputs = list(range(c.cfg["n"]))
        out = c.interp.call(res, [inputs], dict(config="cfg"))
        yield "one-future-per-input-in-order", len(out) == len(inputs) and [p[0] for p in out] == inputs
        yield "futures-are-the-submitted-ones", all(p[1] == ("wrapped", ("future", j)) for j, p in enumerate(out))
        yield "kwargs-forwarded", all(call[2] == {"config": "cfg"} and call[1] == inputs[j] for j, call in enumerate(c.pool.calls))
        if c.cfg["n"]:
            f = c.pool.calls[0][0]
            if c.cfg["zero"]:
                yield "no-retry-wrapper-for-zero-retries", f is c.fn
            else:
                ok = isinstance(f, functools.partial) and isinstance(f.func, c.Retryer) and f.args == (c.fn,)
                yield "wrapped-in-retryer", ok
                if ok:
                    stop = f.func.kw.get("stop")
                    yield "reraise-last-error", f.func.kw.get("reraise") is True
                    yield "retry-budget-is-retries-plus-one", isinstance(stop, tuple) and stop[0] == "stop_after_attempt" and c.And(stop[1] == c.retries + 1)
