"""C06 / C10 / C12 — cubed.random.random: the root seed is drawn once, when the array is built, and travels with the
operation; each task seeds its own generator with root_seed + (row-major offset of its block), so re-executing a task
regenerates the identical block, and distinct blocks use distinct streams."""
from __future__ import annotations

import z3

from pyvc.arrays import Dtype, SymBlock, make_spec
from pyvc.spec import register
from pyvc.sym import tz, wrap

from .c01_ops import ArrayOpSpec

RND = "cubed.random"


class _RandomStub:
    """numpy.random: Philox(key) / Generator(bitgen).random(shape, dtype) as an assumed contract — the numbers are a
    deterministic function Rand(key, local index) of the key and the position in the returned block"""

    def __init__(self, c):
        self.c = c
        stub = self

        class Philox:
            def __init__(self, key=None, **k):
                self.key = key

        class Generator:
            def __init__(self, bitgen):
                self.bitgen = bitgen

            def random(self, size=None, dtype=None, **k):
                shape = tuple(size) if not isinstance(size, int) else (size,)
                nd = len(shape)
                R = z3.Function(f"Rand{nd}", *([z3.IntSort()] * (nd + 1)), z3.IntSort())
                key = self.bitgen.key
                c.ctx.note_assumption("numpy.random: Generator(Philox(key)).random(shape) is a deterministic function of key and position")
                c.keys_used = getattr(c, "keys_used", []) + [key]
                return SymBlock(shape, dtype, (lambda loc: ("<value>", (wrap(R(tz(key), *[tz(l) for l in loc])),))), "random")

        self.Philox, self.Generator = Philox, Generator


class _PyRandomStub:
    def __init__(self, c):
        self.c = c

    def getrandbits(self, n):
        self.c.ctx.effect("draw-root-seed", n)
        v = self.c.ctx.fresh_int("root_seed", lo=0)
        self.c.root_seed = v
        return v


@register
class Random(ArrayOpSpec):
    """random(size, chunks=, spec=): element g of the result is Rand(root_seed + offset(block of g), g - start(block)),
    with one root_seed drawn while building (exactly one draw, none inside tasks); every block has its region's shape."""

    target = f"{RND}:random"
    props = ("C06", "C10", "C12", "C01")
    quick_props = ("C06", "C10")

    not_covered = ("rank >= 2: the row-major offset b0*nb1 + b1 makes the origin obligation nonlinear; z3 decides it in seconds on an idle "
                   "machine but runs past every budget when the short branch-decision timeouts expire under load, so the "
                   "configuration was removed rather than left to flip between discharged and undecided",)

    def configs(self, tier):
        return [dict(ndim=1)]

    def install(self, c):
        super().install(c)
        W = c.interp.world
        W.module_overrides["numpy.random"] = _RandomStub(c)
        W.module_overrides["random"] = _PyRandomStub(c)

    def setup(self, c):
        nd = c.cfg["ndim"]
        shape = tuple(c.int(f"n{i}", lo=1) for i in range(nd))
        chunks = tuple(c.int(f"c{i}", lo=1) for i in range(nd))
        for n, ch in zip(shape, chunks):
            c.assume(ch <= n)
        c.spec_obj = make_spec(c)
        c.shape, c.chunks = shape, chunks
        R = z3.Function(f"Rand{nd}", *([z3.IntSort()] * (nd + 1)), z3.IntSort())

        def exp(j, g):
            # block coordinates and local position of global index g
            bc = tuple(gi // ch for gi, ch in zip(g, chunks))
            loc = tuple(gi - b * ch for gi, b, ch in zip(g, bc, chunks))
            nbs = tuple((n + ch - 1) // ch for n, ch in zip(shape, chunks))
            off = 0
            for b, nb in zip(bc, nbs):
                off = off * nb + b
            rs = getattr(c, "root_seed", None)
            if rs is None:  # no seed was drawn while building: nothing the task uses can be the build-time seed
                rs = c.root_seed = c.ctx.fresh_int("undrawn_seed")
            return ("<value>", (wrap(R(tz(rs + off), *[tz(l) for l in loc])),))

        c.expect_origin = exp
        return (shape,), dict(dtype=Dtype("float64", 8), chunks=chunks, spec=c.spec_obj)

    def ensures(self, c, a, k, res):
        yield "shape", c.eq_tuple(res.shape, c.shape)
        draws = [e for e in c.ctx.effects if e[0] == "draw-root-seed"]
        yield "exactly-one-seed-drawn-while-building", len(draws) == 1
        rec = c.gb_calls[-1]
        yield "the-seed-travels-with-the-operation", len(draws) == 1 and rec.kwargs.get("root_seed") is getattr(c, "root_seed", None)
        # distinct blocks use distinct generator keys: the row-major offset is injective on the block grid
        nbs = tuple((n + ch - 1) // ch for n, ch in zip(c.shape, c.chunks))
        b1 = tuple(c.int(f"blk_a{i}", lo=0) for i in range(len(nbs)))
        b2 = tuple(c.int(f"blk_b{i}", lo=0) for i in range(len(nbs)))

        def off(b):
            o = 0
            for x, nb in zip(b, nbs):
                o = o * nb + x
            return o

        inr = c.And(*[c.And(x < nb, y < nb) for x, y, nb in zip(b1, b2, nbs)])
        yield "distinct-blocks-use-distinct-streams", c.implies(c.And(inr, off(b1) == off(b2)), c.And(*[x == y for x, y in zip(b1, b2)]))

    def replay_case(self, cfg, model):
        return None
