"""C01 / C12 / C17 — more structural operations: broadcast_to (a template array drives NumPy broadcasting blockwise),
flip (a selection per output block, assembled through the zarr indexer, then flipped)."""
from __future__ import annotations

from pyvc.arrays import sym_array
from pyvc.spec import register

from .c01_ops import ArrayOpSpec

MF = "cubed.array_api.manipulation_functions"


@register
class BroadcastTo(ArrayOpSpec):
    """broadcast_to(x, shape): result[g] == x[g'] where g' drops the new leading axes and reads index 0 on every axis
    of x that has extent 1; refused with ValueError iff some axis of x with extent != 1 differs from the target."""

    target = f"{MF}:broadcast_to"
    quick_props = ("C01", "C17")

    def configs(self, tier):
        out = [dict(ndim=1, new=1, unit=[]), dict(ndim=2, new=0, unit=[0]), dict(ndim=1, new=0, unit=[0])]
        if tier != "quick":
            out += [dict(ndim=2, new=1, unit=[1]), dict(ndim=2, new=0, unit=[0, 1]), dict(ndim=2, new=1, unit=[])]
        return out

    def setup(self, c):
        nd, new, unit = c.cfg["ndim"], c.cfg["new"], c.cfg["unit"]
        x = sym_array(c, "x", nd, fixed={i: 1 for i in unit})
        lead = tuple(c.int(f"lead{i}", lo=0) for i in range(new))
        tail = tuple(c.int(f"t{i}", lo=0) if i in unit else x.shape[i] for i in range(nd))
        shape = lead + tail
        c.shape = shape

        def exp(j, g):
            gx = tuple(0 if i in unit else g[new + i] for i in range(nd))
            return (x.name, gx)

        c.expect_origin = exp
        return (x, shape), {}

    def ensures(self, c, a, k, res):
        yield "shape", c.eq_tuple(res.shape, c.shape)

    def replay_case(self, cfg, model):
        nd, new, unit = cfg["ndim"], cfg["new"], cfg["unit"]
        shape = [int(model.get(f"lead{i}", 0)) for i in range(new)]
        for i in range(nd):
            shape.append(int(model.get(f"t{i}", 1)) if i in unit else int(model.get(f"x_n{i}", 0)))
        return ({"x": (nd, {i: 1 for i in unit})}, f"lambda xp, a: xp.broadcast_to(a['x'], {tuple(shape)!r})",
                f"lambda np, a: np.broadcast_to(a['x'], {tuple(shape)!r})")


@register
class Flip(ArrayOpSpec):
    """flip(x, axis): result[.., j, ..] == x[.., n-1-j, ..] on every flipped axis; shape and chunks unchanged."""

    target = f"{MF}:flip"
    quick_props = ("C01",)

    def configs(self, tier):
        out = [dict(ndim=1, axis=[0])]
        if tier != "quick":
            out += [dict(ndim=2, axis=[0]), dict(ndim=2, axis=[1])]  # (both axes at once exceeds the time budget)
        return out

    def setup(self, c):
        nd, axis = c.cfg["ndim"], tuple(c.cfg["axis"])
        x = sym_array(c, "x", nd)
        c.expect_origin = lambda j, g: (x.name, tuple(x.shape[i] - 1 - g[i] if i in axis else g[i] for i in range(nd)))
        return (x,), dict(axis=axis if len(axis) > 1 else axis[0])

    def ensures(self, c, a, k, res):
        yield "shape", c.eq_tuple(res.shape, a[0].shape)

    def replay_case(self, cfg, model):
        ax = tuple(cfg["axis"])
        return ({"x": (cfg["ndim"], None)}, f"lambda xp, a: xp.flip(a['x'], axis={ax!r})", f"lambda np, a: np.flip(a['x'], axis={ax!r})")


@register
class Squeeze(ArrayOpSpec):
    """squeeze(x, axis): removes axes of extent 1 (ValueError for any other extent); every other element in place."""

    target = "cubed.core.ops:squeeze"
    quick_props = ("C01", "C17")

    def configs(self, tier):
        out = [dict(ndim=2, axis=[0], unit=[0]), dict(ndim=2, axis=[1], unit=[0])]
        if tier != "quick":
            out += [dict(ndim=3, axis=[0, 2], unit=[0, 2]), dict(ndim=2, axis=[1], unit=[1]), dict(ndim=3, axis=[1], unit=[1])]
        return out

    def setup(self, c):
        nd, axis, unit = c.cfg["ndim"], tuple(c.cfg["axis"]), c.cfg["unit"]
        x = sym_array(c, "x", nd, fixed={i: 1 for i in unit})
        keep = [i for i in range(nd) if i not in axis]

        def exp(j, g):
            it = iter(g)
            return (x.name, tuple(0 if i in axis else next(it) for i in range(nd)))

        c.expect_origin = exp
        c.keep = keep
        return (x, axis if len(axis) > 1 else axis[0]), {}

    def declines(self, c, a, k, e):
        x = a[0]
        return c.Or(*[x.shape[i] != 1 for i in c.cfg["axis"]])

    def ensures(self, c, a, k, res):
        x = a[0]
        yield "only-unit-axes-removed", c.And(*[x.shape[i] == 1 for i in c.cfg["axis"]])
        yield "shape", c.eq_tuple(res.shape, tuple(x.shape[i] for i in c.keep))

    def replay_case(self, cfg, model):
        ax = tuple(cfg["axis"])
        return ({"x": (cfg["ndim"], {i: 1 for i in cfg["unit"]})}, f"lambda xp, a: xp.squeeze(a['x'], axis={ax!r})",
                f"lambda np, a: np.squeeze(a['x'], axis={ax!r})")


@register
class MatrixTranspose(ArrayOpSpec):
    """matrix_transpose(x): swaps the last two axes."""

    target = "cubed.array_api.linear_algebra_functions:matrix_transpose"
    quick_props = ("C01",)

    def configs(self, tier):
        return [dict(ndim=2)] + ([dict(ndim=3)] if tier != "quick" else [])

    def setup(self, c):
        nd = c.cfg["ndim"]
        x = sym_array(c, "x", nd)
        c.expect_origin = lambda j, g: (x.name, tuple(g[:-2]) + (g[-1], g[-2]))
        return (x,), {}

    def ensures(self, c, a, k, res):
        s = a[0].shape
        yield "shape", c.eq_tuple(res.shape, tuple(s[:-2]) + (s[-1], s[-2]))

    def replay_case(self, cfg, model):
        return ({"x": (cfg["ndim"], None)}, "lambda xp, a: xp.matrix_transpose(a['x'])", "lambda np, a: np.swapaxes(a['x'], -1, -2)")
