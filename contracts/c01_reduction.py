"""C01 / C12 — core.ops.reduction: the glue around partial_reduce (initial round, tree of further rounds, aggregate,
squeeze, astype) — checked against partial_reduce's contract (caller against callee)."""
from __future__ import annotations

import z3

from pyvc import gb
from pyvc.arrays import Dtype, build_array, fresh_name, sym_array
from pyvc.spec import register
from pyvc.sym import PyExc, tz
from pyvc.symseq import RepGrid

from .c01_ops import ArrayOpSpec
from .c01_reduce import ReduceFn

OPS = "cubed.core.ops"


class _LogOracle:
    """math.log(n, s) in `tree_reduce`; only ceil() of it is used: the least d with s**d >= n (assumed for the float
    computation), resolved by case split for d in {0, 1, 2}; larger trees are cut (bounded)"""

    def __init__(self, c, n, s):
        self.c, self.n, self.s = c, n, s

    def __ceil__(self):
        it = self.c.interp
        n, s = self.n, self.s
        if it.truth(n <= 1):
            return 0
        if it.truth(n <= s):
            return 1
        self.c.assume(n <= s * s)
        self.c.ctx.note_assumption("tree depth cut at 2 further rounds (numblocks <= split_every**2 after the first round)")
        return 2


@register
class Reduction(ArrayOpSpec):
    """reduction(x, func, combine_func, axis, dtype, keepdims, split_every): with partial_reduce used through its contract
    (one round: per reduced axis the number of blocks becomes ceil(nb / split), every block of the result has extent 1
    there and aggregates exactly its group — contracts partial_reduce / partial_reduce[structured]):
      * the first round gets the initial function, later rounds do not; every round gets the same axes and split sizes;
      * after the last round every reduced axis is a single element that aggregates the whole axis [0, n) once;
      * the result has x's shape with the reduced axes removed (kept with extent 1 for keepdims=True) and the
        requested dtype."""

    target = f"{OPS}:reduction"
    props = ("C01", "C12")
    quick_props = ("C01",)
    bounded = ("at most 2 rounds after the first (tree depth); math.log/ceil of tree_reduce assumed exact",)

    def configs(self, tier):
        out = []
        for nd, axes in ((1, [0]), (2, [0]), (2, [1]), (2, [0, 1])):
            for keep in (False, True):
                out.append(dict(ndim=nd, axes=axes, keepdims=keep))
        return out if tier != "quick" else [o for o in out if o["ndim"] == 2 and o["axes"] != [1]]

    def install(self, c):
        gb.install(c)
        S = c.interp.world.summaries
        NO = c.interp.world.native_overrides
        NO["math.log"] = lambda n, s=None: _LogOracle(c, n, s)
        c.rounds = []

        def partial_reduce(it, fn, a, k):
            x = a[0]
            split = k["split_every"]
            w = dict(getattr(x, "agg_w", None) or {i: 1 for i in range(x.ndim)})
            shape, grids = [], []
            for i in range(x.ndim):
                if i in split:
                    nb = x.numblocks[i]
                    s_ = split[i]
                    # nbo == ceil(nb / s): division-free definition
                    nbo = it.ctx.fresh_int("nbo", lo=1)
                    it.ctx.assume_def(z3.Implies(z3.And(tz(nb) >= 1, tz(s_) >= 1), z3.And((nbo.t - 1) * tz(s_) < tz(nb), tz(nb) <= nbo.t * tz(s_))))
                    if it.ctx.entails(nbo.t == 1):
                        nbo = 1  # a single group on this path
                    shape.append(nbo)
                    grids.append(RepGrid(1, nbo))
                    w[i] = s_ * x.chunksize[i] * w[i]
                else:
                    shape.append(x.shape[i])
                    grids.append(x.chunks[i])
            out = build_array(it, fresh_name(it), tuple(shape), tuple(grids), k.get("dtype"), x.spec)
            object.__getattribute__(out, "attrs")["agg_w"] = w
            c.rounds.append(dict(x=x, func=a[1] if len(a) > 1 else k.get("func"), initial=k.get("initial_func"), split=dict(split),
                                 dtype=k.get("dtype"), combine_sizes=k.get("combine_sizes"), out=out))
            it.ctx.note_assumption("partial_reduce used through its contract (proved separately: partial_reduce, partial_reduce[structured])")
            return out

        S[f"{OPS}:partial_reduce"] = partial_reduce

    def setup(self, c):
        nd, axes = c.cfg["ndim"], tuple(c.cfg["axes"])
        x = sym_array(c, "x", nd)
        split = {ax: c.int(f"split{ax}", lo=2) for ax in axes}
        c.x, c.split = x, split
        c.expect_origin = None
        c.mid, c.out = Dtype("int64", 8), Dtype("int64", 8)
        c.f0, c.f1 = ReduceFn("reduce", "func"), ReduceFn("reduce", "combine")
        return (x, c.f0), dict(combine_func=c.f1, axis=axes if len(axes) > 1 else axes[0], intermediate_dtype=c.mid, dtype=c.out,
                               keepdims=c.cfg["keepdims"], split_every=split)

    def ensures(self, c, a, k, res):
        x, axes = c.x, tuple(c.cfg["axes"])
        rounds = c.rounds
        yield "at-least-one-round", len(rounds) >= 1
        if not rounds:
            return
        yield "first-round-reads-x-with-the-initial-function", rounds[0]["x"] is x and rounds[0]["initial"] is not None
        for j, r in enumerate(rounds):
            yield f"round[{j}]:same-axes-and-split-sizes", sorted(r["split"]) == sorted(axes) and all(r["split"][i] is c.split[i] for i in axes)
            yield f"round[{j}]:intermediate-dtype", r["dtype"] is c.mid
            if j > 0:
                yield f"round[{j}]:reads-the-previous-round-without-initial-function", r["x"] is rounds[j - 1]["out"] and r["initial"] is None
        last = rounds[-1]["out"]
        w = object.__getattribute__(last, "attrs")["agg_w"]
        for i in axes:
            yield f"single-element-after-the-last-round[{i}]", last.shape[i] == 1
            yield f"that-element-aggregates-the-whole-axis[{i}]", w[i] >= x.shape[i]
        want = tuple((1 if i in axes else x.shape[i]) for i in range(x.ndim) if (c.cfg["keepdims"] or i not in axes))
        yield "shape", c.eq_tuple(res.shape, want)
        yield "dtype", res.dtype is c.out
