"""C19 — acceptance and results do not depend on how resources are configured: helper arrays created inside
operations must receive the operands' spec (frame/data-flow clause over the real source, backend pyvc-frame);
the symbolic-spec runs of the array-operation contracts (c01_*) contribute the dynamic half: every array there
carries an explicit Spec object different from the configuration default, so an unthreaded helper array makes
check_array_specs raise and the contract's exception clause fail."""
from __future__ import annotations

import ast
import os
import time

from pyvc.source import REPO, parse_module
from pyvc.spec import FuncSpec, register

CREATORS = {"asarray", "empty", "full", "zeros", "ones", "arange", "linspace", "eye", "offsets_virtual_array",
            "empty_virtual_array", "_tri_mask", "from_array", "random"}
LIKE = {"empty_like", "full_like", "zeros_like", "ones_like"}
SKIP_DIRS = ("cubed/tests", "cubed/diagnostics", "cubed/runtime", "cubed/vendor")


@register
class SpecThreaded(FuncSpec):
    """Clause per call site, in library code, of an array-creating helper (asarray, empty, full, zeros, ones, arange,
    linspace, eye, offsets_virtual_array, empty_virtual_array, _tri_mask, from_array): the call passes a `spec`
    argument (keyword or the helper's positional spec slot) that is not the literal None, or is a *_like call (spec
    taken from the prototype), unless the enclosing function has no array to take a spec from (it is itself a
    creation function forwarding its own `spec` parameter, which then must be forwarded)."""

    target = "cubed:*"
    name = "cubed:helper-arrays/spec-threaded"
    props = ("C19",)
    trusted = ("syntactic data-flow: a `spec=` argument is assumed to denote the operands' spec when it is an expression "
               "mentioning `.spec` or a variable/parameter named spec*",)

    def configs(self, tier):
        return [{}]

    def analyze(self, cfg, tier):
        t0 = time.time()
        obs = []
        nsites = 0
        positional_spec = {"offsets_virtual_array": 1, "_tri_mask": 4}
        for dp, dn, fns in os.walk(os.path.join(REPO, "cubed")):
            for f in sorted(fns):
                if not f.endswith(".py"):
                    continue
                path = os.path.join(dp, f)
                rel = os.path.relpath(path, REPO)
                if any(rel.startswith(s) for s in SKIP_DIRS):
                    continue
                tree, _ = parse_module(path)
                mod = rel[:-3].replace("/", ".")
                for fn in ast.walk(tree):
                    if not isinstance(fn, (ast.FunctionDef, ast.AsyncFunctionDef)):
                        continue
                    params = [a.arg for a in fn.args.args + fn.args.posonlyargs + fn.args.kwonlyargs]
                    k = 0
                    for n in ast.walk(fn):
                        if not isinstance(n, ast.Call):
                            continue
                        callee = n.func.id if isinstance(n.func, ast.Name) else (n.func.attr if isinstance(n.func, ast.Attribute) else None)
                        if callee in LIKE:
                            continue
                        if callee not in CREATORS:
                            continue
                        if isinstance(n.func, ast.Attribute) and not (isinstance(n.func.value, ast.Name) and n.func.value.id in ("xp", "cubed")):
                            continue  # method of some other object (NumPy namespace, random generator ...), not a cubed creator
                        # only calls nested directly in this function (not in nested defs: they are visited themselves)
                        if _owner(n, fn) is not fn:
                            continue
                        k += 1
                        nsites += 1
                        kw = {x.arg: x.value for x in n.keywords if x.arg}
                        starstar = [x.value for x in n.keywords if x.arg is None]
                        ok, why = False, "no spec argument"
                        if "spec" in kw:
                            v = kw["spec"]
                            if isinstance(v, ast.Constant) and v.value is None:
                                why = "spec=None"
                            else:
                                ok = True
                        elif callee in positional_spec and len(n.args) > positional_spec[callee]:
                            ok = True
                        elif any(isinstance(s, ast.Call) and getattr(s.func, "id", None) == "_like_args" for s in starstar):
                            ok = True
                        elif callee == "asarray" and fn.name == "asarray":
                            ok = True  # asarray(a.data) recursion on an xarray wrapper: `a.data` is the cubed array itself
                        elif callee == "from_array" and "spec" not in params:
                            ok = False
                        site = f"{mod}:{fn.name}@{callee}#{k}"
                        obs.append(dict(name=f"spec-threaded[{site}]", kind="data-flow-clause", result="discharged" if ok else "failed",
                                        paths=1, backend="pyvc-frame", solver_s=0.0, where=[f"{rel}:{n.lineno}"],
                                        failure=None if ok else dict(model={}, where=f"{rel}:{n.lineno}", detail=f"{ast.unparse(n)[:160]} — {why}", path=[], cfg=cfg)))
        canaries = {"canary:call-sites-found": nsites >= 15}
        return dict(spec=self.name, target=self.target, cfg=cfg, paths=nsites, scoped_paths=0, infeasible=0, undecided=[],
                    assumptions=list(self.trusted), canaries=canaries, cover=True, wall_s=round(time.time() - t0, 3),
                    solver_s=0.0, errors=[], outcomes={"call_sites": nsites}, obligations=obs)

    def replay(self, cfg, model, ob):
        if "searching_functions:searchsorted" not in ob["name"]:
            return None
        return """
import tempfile, numpy as np, cubed, cubed.array_api as xp
spec = cubed.Spec(work_dir=tempfile.mkdtemp(prefix="pyvc-replay-"), allowed_mem=1_000_000_000)
x1 = xp.asarray(np.array([1, 2, 3, 4, 5]), chunks=2, spec=spec)
x2 = xp.asarray(np.array([0, 3, 6]), chunks=2, spec=spec)
try:
    r = xp.searchsorted(x1, x2).compute()
    reproduced, detail = (not np.array_equal(r, np.searchsorted([1, 2, 3, 4, 5], [0, 3, 6]))), f"result {r}"
except ValueError as e:
    reproduced, detail = True, f"explicit Spec rejected although the default configuration is accepted: ValueError: {str(e)[:200]}"
"""


def _owner(node, root):
    """innermost FunctionDef containing node (via the _parent links set by parse_module)."""
    n = getattr(node, "_parent", None)
    while n is not None:
        if isinstance(n, (ast.FunctionDef, ast.AsyncFunctionDef, ast.Lambda)):
            return n
        n = getattr(n, "_parent", None)
    return None


# ---------------------------------------------------------------------------------------------------------------------
# dynamic half for map_blocks' coercion of non-cubed arguments


from pyvc import gb as _gb  # noqa: E402
from pyvc.arrays import Dtype as _Dtype, build_array as _build_array, fresh_name as _fresh_name, make_spec as _make_spec, sym_array as _sym_array  # noqa: E402
from pyvc.sym import PyExc as _PyExc  # noqa: E402


class _NPLike:
    """a non-cubed array argument (NumPy array): shape and dtype only"""

    def __init__(self, shape, dtype):
        self.shape, self.dtype, self.ndim = tuple(shape), dtype, len(shape)


@register
class MapBlocksCoercion(FuncSpec):
    """map_blocks(f, *args) where one argument is a NumPy array and the other a cubed array built under an explicit
    Spec S different from the configuration default: the call is accepted (the NumPy argument is wrapped under S, so
    check_array_specs passes) and the result carries S — whatever the position of the NumPy argument."""

    target = "cubed.core.ops:map_blocks"
    name = "cubed.core.ops:map_blocks[coerces-under-the-operands'-spec]"
    props = ("C19",)

    def configs(self, tier):
        return [dict(numpy_at=i) for i in (0, 1)]

    def install(self, c):
        S = _gb.install(c)
        it = c.interp
        Arr = it.world.lookup("cubed.array_api.array_object:Array")

        def asarray(it_, fn, a, k):
            obj = a[0]
            if hasattr(obj, "cls") and obj.cls is Arr:
                return obj
            sp = k.get("spec")
            if sp is None:
                sp = it_.call(it_.world.lookup("cubed.spec:spec_from_config"), [None], {})
            grids = tuple(g for g in c.x.chunks)
            return _build_array(it_, _fresh_name(it_), obj.shape, grids, obj.dtype, sp)

        S["cubed.array_api.creation_functions:asarray"] = asarray

    def setup(self, c):
        from contracts.c01_reduce import ElemwiseFn

        c.S = _make_spec(c, "explicit")
        x = _sym_array(c, "x", 1, spec=c.S)
        c.x = x
        npl = _NPLike(x.shape, x.dtype)
        args = (npl, x) if c.cfg["numpy_at"] == 0 else (x, npl)
        return (ElemwiseFn("f"), *args), dict(dtype=x.dtype)

    def ensures(self, c, a, k, res):
        yield "result-carries-the-operands'-spec", res.spec is c.S

    def raises(self, c, a, k, e):
        return None  # accepted under every resource configuration: any exception is a violation

    def replay(self, cfg, model, ob):
        return f"""
import tempfile, shutil
import numpy as np
import cubed, cubed.array_api as xp
d = tempfile.mkdtemp(prefix="pyvc-replay-")
try:
    spec = cubed.Spec(work_dir=d, allowed_mem="500MB", reserved_mem="1MB")
    x = xp.asarray(np.arange(6.0), chunks=6, spec=spec)  # one chunk, like the coerced NumPy argument
    n = np.ones(6)
    args = (n, x) if {cfg['numpy_at']} == 0 else (x, n)
    try:
        r = cubed.map_blocks(lambda p, q: p + q, *args, dtype=x.dtype)
        got = r.compute()
        reproduced = not np.array_equal(got, np.arange(6.0) + 1) or r.spec is not spec
        detail = f"accepted; values {{got.tolist()}}"
    except Exception as e:
        reproduced, detail = True, f"rejected under an explicit Spec: {{type(e).__name__}}: {{str(e)[:200]}}"
finally:
    shutil.rmtree(d, ignore_errors=True)
"""
