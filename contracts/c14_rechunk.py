"""C14 — rechunk planner contracts (real source: cubed/vendor/rechunker/algorithm.py, cubed/core/rechunk.py)."""
from __future__ import annotations

from pyvc.spec import FuncSpec, register
from pyvc.sym import PyExc

ALG = "cubed.vendor.rechunker.algorithm"
RCH = "cubed.core.rechunk"


def ranks(tier):
    return (1, 2) if tier == "quick" else (1, 2, 3)


@register
class ConsolidateChunks(FuncSpec):
    """consolidate_chunks(shape, chunks, itemsize, max_mem, chunk_limits)

    requires  (type invariants only) shape[i] >= 1, 1 <= chunks[i] <= shape[i], itemsize >= 1, len(chunk_limits) == ndim
    ensures   itemsize*prod(new) <= max_mem; new[i] == chunks[i] on axes that are not consolidated;
              chunks[i] <= new[i] <= min(shape[i], limit_i) on consolidated axes and new[i] is a multiple of
              chunks[i] or the (limited) full extent
    raises    ValueError iff the original chunk does not fit or a limit is below the chunk size; never AssertionError
    """

    target = f"{ALG}:consolidate_chunks"
    props = ("C14", "C17")

    def configs(self, tier):
        out = []
        for nd in ranks(tier):
            out.append(dict(ndim=nd, limits="none"))
            out.append(dict(ndim=nd, limits="mixed"))
        return out

    def setup(self, c):
        nd = c.cfg["ndim"]
        shape = c.ints("shape", nd, lo=1)
        chunks = c.ints("chunks", nd, lo=1)
        for s_, c_ in zip(shape, chunks):
            c.assume(c_ <= s_)  # a chunking of an array: callers pass to_chunksize(normalize_chunks(..)) <= extent
        itemsize = c.int("itemsize", lo=1)
        max_mem = c.int("max_mem")
        if c.cfg["limits"] == "none":
            limits = None
        else:
            limits = []
            for i in range(nd):
                if c.ctx.branch(c.bool(f"limit{i}_is_none").t):
                    limits.append(None)
                else:
                    limits.append(c.int(f"limit{i}"))
        c.lim = limits
        return (shape, chunks, itemsize, max_mem, limits), {}

    def _eff(self, c, shape, chunks, limits, i):
        """effective upper bound of axis i (None: axis not consolidated)."""
        if limits is None:
            return shape[i]
        cl = limits[i]
        if cl is None:
            return None
        return c.ite(cl == -1, shape[i], c.ite(cl > shape[i], shape[i], cl))

    def ensures(self, c, a, k, new):
        shape, chunks, itemsize, max_mem, limits = a
        nd = len(shape)
        yield "result-rank", len(new) == nd
        yield "within-budget", itemsize * c.prod(new) <= max_mem
        for i in range(nd):
            ub = self._eff(c, shape, chunks, limits, i)
            if ub is None:
                yield f"unconsolidated-axis-unchanged[{i}]", new[i] == chunks[i]
            else:
                yield f"grown-not-shrunk[{i}]", new[i] >= chunks[i]
                yield f"at-most-extent-and-limit[{i}]", c.And(new[i] <= shape[i], new[i] <= ub)
                yield f"multiple-of-source-or-full[{i}]", c.Or(new[i] % chunks[i] == 0, new[i] == ub)

    def raises(self, c, a, k, e: PyExc):
        shape, chunks, itemsize, max_mem, limits = a
        if e.etype is not ValueError:
            return None
        too_big = itemsize * c.prod(chunks) > max_mem
        bad = []
        for i in range(len(shape)):
            cl = shape[i] if limits is None else limits[i]
            if cl is None:
                continue
            bad.append(c.And(cl != -1, cl < chunks[i], cl <= shape[i]))
        return c.Or(too_big, *bad)

    def canaries(self, c, a, k, new):
        shape, chunks, itemsize, max_mem, limits = a
        yield "canary:strictly-below-budget", itemsize * c.prod(new) < max_mem
        yield "canary:always-full-extent", new[0] == shape[0]

    def replay(self, cfg, model, ob):
        nd = cfg["ndim"]
        g = lambda n, d=1: model.get(n, d)
        shape = tuple(g(f"shape{i}") for i in range(nd))
        chunks = tuple(g(f"chunks{i}") for i in range(nd))
        if cfg["limits"] == "none":
            limits = None
        else:
            limits = [None if model.get(f"limit{i}_is_none", True) else g(f"limit{i}", 1) for i in range(nd)]
        return f"""
from math import prod
from cubed.vendor.rechunker.algorithm import consolidate_chunks
shape, chunks, itemsize, max_mem, limits = {shape!r}, {chunks!r}, {g('itemsize')!r}, {g('max_mem', 0)!r}, {limits!r}
try:
    new = consolidate_chunks(shape, chunks, itemsize, max_mem, limits)
    ok = itemsize*prod(new) <= max_mem and all(n >= c for n, c in zip(new, chunks)) and all(n <= s for n, s in zip(new, shape))
    for i in range(len(shape)):
        cl = shape[i] if limits is None else limits[i]
        if cl is None:
            ok = ok and new[i] == chunks[i]
        else:
            ub = shape[i] if cl == -1 or cl > shape[i] else cl
            ok = ok and new[i] <= ub and (new[i] % chunks[i] == 0 or new[i] == ub)
    reproduced, detail = (not ok), f"consolidate_chunks{{(shape, chunks, itemsize, max_mem, limits)}} -> {{new}}"
except ValueError as e:
    bad = itemsize*prod(chunks) > max_mem or any((shape[i] if limits is None else limits[i]) is not None and (shape[i] if limits is None else limits[i]) != -1 and (shape[i] if limits is None else limits[i]) < chunks[i] for i in range(len(shape)))
    reproduced, detail = (not bad), f"ValueError: {{e}}"
except Exception as e:
    reproduced, detail = True, f"{{type(e).__name__}}: {{e}}"
"""


# ---------------------------------------------------------------------------------------------------------------
# copy operations: _rechunk / merge_chunks through the universal blockwise contract and the zarr indexer contract

from pyvc import gb  # noqa: E402
from pyvc.arrays import sym_array  # noqa: E402

OPS = "cubed.core.ops"


class CopyOpSpec(FuncSpec):
    props = ("C14", "C05", "C01", "C12", "C17")
    explicit = (ValueError, TypeError, NotImplementedError, IndexError)

    def install(self, c):
        gb.install(c)

    def raises(self, c, a, k, e):
        if isinstance(e.etype, type) and issubclass(e.etype, self.explicit):
            return self.declines(c, a, k, e)
        return None

    def declines(self, c, a, k, e):
        return False


@register
class RechunkCopy(CopyOpSpec):
    """_rechunk(x, copy_chunks, target_chunks, allow_irregular=False): one copy stage.
    requires  (established by _rechunk_plan/_fix_copy_chunks, obligation there) per axis copy_chunks % target_chunks == 0
              or copy_chunks >= extent — each task writes whole storage chunks of its target
    ensures   result has x's shape and dtype; every element is preserved: result[idx] == x[idx] (GB.origin through the
              indexer contract and the scatter loop of _assemble_index_chunk); every key the task reads is a valid block
              of x; the block it writes has the shape of its copy chunk; GB.align holds."""

    target = f"{OPS}:_rechunk"
    name = f"{OPS}:_rechunk[regular]"

    def configs(self, tier):
        return [dict(ndim=nd) for nd in ((1, 2) if tier == "quick" else (1, 2, 3))]

    def setup(self, c):
        nd = c.cfg["ndim"]
        x = sym_array(c, "x", nd)
        copy = c.ints("copy", nd, lo=1)
        tgt = c.ints("tgt", nd, lo=1)
        for n, cc, tc in zip(x.shape, copy, tgt):
            c.assume(cc <= n)
            c.assume(tc <= n)
            c.assume(c.Or(cc % tc == 0, cc >= n))
        c.expect_origin = lambda j, g: ("array-x", tuple(g))
        return (x, copy, tgt), dict(allow_irregular=False)

    def ensures(self, c, a, k, res):
        x, copy, tgt = a
        yield "shape", c.eq_tuple(res.shape, x.shape)
        yield "storage-chunks-are-the-requested-ones", c.eq_tuple(res._zarray.chunks, tgt)
        ops = [r.op for r in getattr(c, "gb_calls", [])]
        yield "one-copy-op-not-fusable", len(ops) == 1 and ops[0].fusable_with_predecessors is False and ops[0].fusable_with_successors is False


@register
class MergeChunks(CopyOpSpec):
    """merge_chunks(x, chunks): chunks must be a per-axis multiple of x's chunk size (ValueError otherwise, also for a
    wrong rank); every element preserved; result chunking is the requested one."""

    target = f"{OPS}:merge_chunks"

    def configs(self, tier):
        return [dict(ndim=nd) for nd in ((1, 2) if tier == "quick" else (1, 2, 3))]

    def setup(self, c):
        nd = c.cfg["ndim"]
        x = sym_array(c, "x", nd)
        ch = c.ints("m", nd, lo=1)
        c.expect_origin = lambda j, g: ("array-x", tuple(g))
        return (x, ch), {}

    def ensures(self, c, a, k, res):
        x, ch = a
        yield "shape", c.eq_tuple(res.shape, x.shape)
        yield "accepted-only-multiples", c.And(*[m % xc == 0 for m, xc in zip(ch, x.chunksize)])

    def declines(self, c, a, k, e):
        x, ch = a
        return c.Or(*[m % xc != 0 for m, xc in zip(ch, x.chunksize)])
