"""C14 — rechunk planner contracts (real source: cubed/vendor/rechunker/algorithm.py, cubed/core/rechunk.py)."""
from __future__ import annotations

from pyvc.spec import FuncSpec, register
from pyvc.sym import PyExc

ALG = "cubed.vendor.rechunker.algorithm"
RCH = "cubed.core.rechunk"


def ranks(tier):
    return (1, 2) if tier == "quick" else (1, 2, 3)


@register
class ConsolidateChunks(FuncSpec):
    """consolidate_chunks(shape, chunks, itemsize, max_mem, chunk_limits)

    requires  (type invariants only) shape[i] >= 1, 1 <= chunks[i] <= shape[i], itemsize >= 1, len(chunk_limits) == ndim
    ensures   itemsize*prod(new) <= max_mem; new[i] == chunks[i] on axes that are not consolidated;
              chunks[i] <= new[i] <= min(shape[i], limit_i) on consolidated axes and new[i] is a multiple of
              chunks[i] or the (limited) full extent
    raises    ValueError iff the original chunk does not fit or a limit is below the chunk size; never AssertionError
    """

    target = f"{ALG}:consolidate_chunks"
    props = ("C14", "C17")

    def configs(self, tier):
        out = []
        for nd in ranks(tier):
            out.append(dict(ndim=nd, limits="none"))
            out.append(dict(ndim=nd, limits="mixed"))
        return out

    def setup(self, c):
        nd = c.cfg["ndim"]
        shape = c.ints("shape", nd, lo=1)
        chunks = c.ints("chunks", nd, lo=1)
        for s_, c_ in zip(shape, chunks):
            c.assume(c_ <= s_)  # a chunking of an array: callers pass to_chunksize(normalize_chunks(..)) <= extent
        itemsize = c.int("itemsize", lo=1)
        max_mem = c.int("max_mem")
        if c.cfg["limits"] == "none":
            limits = None
        else:
            limits = []
            for i in range(nd):
                if c.ctx.branch(c.bool(f"limit{i}_is_none").t):
                    limits.append(None)
                else:
                    limits.append(c.int(f"limit{i}"))
        c.lim = limits
        return (shape, chunks, itemsize, max_mem, limits), {}

    def _eff(self, c, shape, chunks, limits, i):
        """effective upper bound of axis i (None: axis not consolidated)."""
        if limits is None:
            return shape[i]
        cl = limits[i]
        if cl is None:
            return None
        return c.ite(cl == -1, shape[i], c.ite(cl > shape[i], shape[i], cl))

    def ensures(self, c, a, k, new):
        shape, chunks, itemsize, max_mem, limits = a
        nd = len(shape)
        yield "result-rank", len(new) == nd
        yield "within-budget", itemsize * c.prod(new) <= max_mem
        for i in range(nd):
            ub = self._eff(c, shape, chunks, limits, i)
            if ub is None:
                yield f"unconsolidated-axis-unchanged[{i}]", new[i] == chunks[i]
            else:
                yield f"grown-not-shrunk[{i}]", new[i] >= chunks[i]
                yield f"at-most-extent-and-limit[{i}]", c.And(new[i] <= shape[i], new[i] <= ub)
                yield f"multiple-of-source-or-full[{i}]", c.Or(new[i] % chunks[i] == 0, new[i] == ub)

    def raises(self, c, a, k, e: PyExc):
        shape, chunks, itemsize, max_mem, limits = a
        if e.etype is not ValueError:
            return None
        too_big = itemsize * c.prod(chunks) > max_mem
        bad = []
        for i in range(len(shape)):
            cl = shape[i] if limits is None else limits[i]
            if cl is None:
                continue
            bad.append(c.And(cl != -1, cl < chunks[i], cl <= shape[i]))
        return c.Or(too_big, *bad)

    def canaries(self, c, a, k, new):
        shape, chunks, itemsize, max_mem, limits = a
        yield "canary:strictly-below-budget", itemsize * c.prod(new) < max_mem
        yield "canary:always-full-extent", new[0] == shape[0]

    def replay(self, cfg, model, ob):
        nd = cfg["ndim"]
        g = lambda n, d=1: model.get(n, d)
        shape = tuple(g(f"shape{i}") for i in range(nd))
        chunks = tuple(g(f"chunks{i}") for i in range(nd))
        if cfg["limits"] == "none":
            limits = None
        else:
            limits = [None if model.get(f"limit{i}_is_none", True) else g(f"limit{i}", 1) for i in range(nd)]
        return f"""
from math import prod
from cubed.vendor.rechunker.algorithm import consolidate_chunks
shape, chunks, itemsize, max_mem, limits = {shape!r}, {chunks!r}, {g('itemsize')!r}, {g('max_mem', 0)!r}, {limits!r}
try:
    new = consolidate_chunks(shape, chunks, itemsize, max_mem, limits)
    ok = itemsize*prod(new) <= max_mem and all(n >= c for n, c in zip(new, chunks)) and all(n <= s for n, s in zip(new, shape))
    for i in range(len(shape)):
        cl = shape[i] if limits is None else limits[i]
        if cl is None:
            ok = ok and new[i] == chunks[i]
        else:
            ub = shape[i] if cl == -1 or cl > shape[i] else cl
            ok = ok and new[i] <= ub and (new[i] % chunks[i] == 0 or new[i] == ub)
    reproduced, detail = (not ok), f"consolidate_chunks{{(shape, chunks, itemsize, max_mem, limits)}} -> {{new}}"
except ValueError as e:
    bad = itemsize*prod(chunks) > max_mem or any((shape[i] if limits is None else limits[i]) is not None and (shape[i] if limits is None else limits[i]) != -1 and (shape[i] if limits is None else limits[i]) < chunks[i] for i in range(len(shape)))
    reproduced, detail = (not bad), f"ValueError: {{e}}"
except Exception as e:
    reproduced, detail = True, f"{{type(e).__name__}}: {{e}}"
"""


# ---------------------------------------------------------------------------------------------------------------
# copy operations: _rechunk / merge_chunks through the universal blockwise contract and the zarr indexer contract

from pyvc import gb  # noqa: E402
from pyvc.arrays import sym_array  # noqa: E402

OPS = "cubed.core.ops"


class CopyOpSpec(FuncSpec):
    props = ("C14", "C05", "C01", "C12", "C17", "C03")
    explicit = (ValueError, TypeError, NotImplementedError, IndexError)
    prop_obligations = {"C03": (".mem:",)}

    def install(self, c):
        gb.install(c)
        c.meter_memory = True

    def raises(self, c, a, k, e):
        if isinstance(e.etype, type) and issubclass(e.etype, self.explicit):
            return self.declines(c, a, k, e)
        return None

    def declines(self, c, a, k, e):
        return False


@register
class RechunkCopy(CopyOpSpec):
    """_rechunk(x, copy_chunks, target_chunks, allow_irregular=False): one copy stage.
    requires  (established by _rechunk_plan/_fix_copy_chunks, obligation there) per axis copy_chunks % target_chunks == 0
              or copy_chunks >= extent — each task writes whole storage chunks of its target
    ensures   result has x's shape and dtype; every element is preserved: result[idx] == x[idx] (GB.origin through the
              indexer contract and the scatter loop of _assemble_index_chunk); every key the task reads is a valid block
              of x; the block it writes has the shape of its copy chunk; GB.align holds."""

    target = f"{OPS}:_rechunk"
    name = f"{OPS}:_rechunk[regular]"
    quick_props = ("C05", "C14")

    not_covered = ("rank 2: does not finish within an hour of nonlinear solving (the copy logic is per axis; rank 1 is decided)",)

    def configs(self, tier):
        return [dict(ndim=1)]

    def setup(self, c):
        nd = c.cfg["ndim"]
        x = sym_array(c, "x", nd)
        tgt = c.ints("tgt", nd, lo=1)
        copy = []
        for i, (n, tc) in enumerate(zip(x.shape, tgt)):
            c.assume(tc <= n)
            # the precondition "copy % target == 0 or copy >= extent", parametrised to stay free of mod terms
            if c.ctx.branch(c.bool(f"copy{i}_is_full_extent").t):
                cc = n
            else:
                k_ = c.int(f"copy{i}_multiple", lo=1)
                cc = k_ * tc
                c.assume(cc <= n)
            c.ctx.symvars[f"copy{i}"] = tz(cc)
            copy.append(cc)
        copy = tuple(copy)
        c.expect_origin = lambda j, g: ("array-x", tuple(g))
        return (x, copy, tgt), dict(allow_irregular=False)

    def ensures(self, c, a, k, res):
        x, copy, tgt = a
        yield "shape", c.eq_tuple(res.shape, x.shape)
        yield "storage-chunks-are-the-requested-ones", c.eq_tuple(res._zarray.chunks, tgt)
        ops = [r.op for r in getattr(c, "gb_calls", [])]
        yield "one-copy-op-not-fusable", len(ops) == 1 and ops[0].fusable_with_predecessors is False and ops[0].fusable_with_successors is False

    def replay(self, cfg, model, ob):
        nd = cfg["ndim"]
        m = dict(model)
        copy = tuple(max(1, int(m.get(f"copy{i}", m.get(f"x_n{i}", 1)))) for i in range(nd))
        tgt = tuple(max(1, int(m.get(f"tgt{i}", 1))) for i in range(nd))
        lines = ["import sys", "sys.path.insert(0, '/verif')", "from pyvc.replay_lib import model_array, run_array_case",
                 f"model = {m!r}", f"arrays = {{'x': model_array(model, 'x', {nd})}}",
                 f"build = lambda xp, a: __import__('cubed.core.ops', fromlist=['_rechunk'])._rechunk(a['x'], {copy!r}, {tgt!r}, allow_irregular=False)",
                 "reference = lambda np, a: a['x']", "reproduced, detail = run_array_case(build, reference, arrays)"]
        return "\n".join(lines) + "\n"


@register
class MergeChunks(CopyOpSpec):
    """merge_chunks(x, chunks): chunks must be a per-axis multiple of x's chunk size (ValueError otherwise, also for a
    wrong rank); every element preserved; result chunking is the requested one."""

    target = f"{OPS}:merge_chunks"
    quick_props = ("C01",)

    not_covered = ("rank 2: does not finish within an hour of nonlinear solving (rank 1 is decided)",)

    def configs(self, tier):
        return [dict(ndim=1)]

    def setup(self, c):
        nd = c.cfg["ndim"]
        x = sym_array(c, "x", nd)
        ch = []
        for i in range(nd):
            # accepted chunks are multiples of x's chunk size (parametrised); anything else is a separate, rejected case
            if c.ctx.branch(c.bool(f"m{i}_is_multiple").t):
                k_ = c.int(f"m{i}_factor", lo=1)
                m_ = k_ * x.chunksize[i]
            else:
                m_ = c.int(f"m{i}", lo=1)
                c.assume(_not_multiple(m_, x.chunksize[i]))
            c.ctx.symvars[f"m{i}"] = tz(m_)
            ch.append(m_)
        ch = tuple(ch)
        c.expect_origin = lambda j, g: ("array-x", tuple(g))
        return (x, ch), {}

    def ensures(self, c, a, k, res):
        x, ch = a
        yield "shape", c.eq_tuple(res.shape, x.shape)
        yield "accepted-only-multiples", c.And(*[~_not_multiple(m, xc) for m, xc in zip(ch, x.chunksize)])

    def declines(self, c, a, k, e):
        x, ch = a
        return c.Or(*[_not_multiple(m, xc) for m, xc in zip(ch, x.chunksize)])

    def replay(self, cfg, model, ob):
        nd = cfg["ndim"]
        m = dict(model)
        ch = tuple(max(1, int(m.get(f"m{i}", 1))) for i in range(nd))
        lines = ["import sys", "sys.path.insert(0, '/verif')", "from pyvc.replay_lib import model_array, run_array_case",
                 f"model = {m!r}", f"arrays = {{'x': model_array(model, 'x', {nd})}}",
                 f"build = lambda xp, a: __import__('cubed.core.ops', fromlist=['merge_chunks']).merge_chunks(a['x'], {ch!r})",
                 "reference = lambda np, a: a['x']", "reproduced, detail = run_array_case(build, reference, arrays)"]
        return "\n".join(lines) + "\n"


def _not_multiple(m, xc):
    """m is not a multiple of xc (total: a zero chunk size — zero-extent axis — has no multiples but 0)"""
    from pyvc.sym import tz as _tz, wrap as _wrap
    import z3 as _z3

    mz, xz = _tz(m), _tz(xc)
    return _wrap(_z3.If(xz == 0, mz != 0, mz % xz != 0))


# ---------------------------------------------------------------------------------------------------------------
# planners

import z3  # noqa: E402

from pyvc.loops import BoundedFor, ForInvariant  # noqa: E402
from pyvc.sym import SReal, wrap, tz  # noqa: E402


@register
class SharedChunks(FuncSpec):
    pure_replay = True  # plain-value arguments: counterexamples are run through the real function (pyvc/replay_pure.py)
    """_calculate_shared_chunks(read, write): elementwise minimum — hence no larger than either neighbour."""

    target = f"{ALG}:_calculate_shared_chunks"
    props = ("C14",)

    def configs(self, tier):
        return [dict(ndim=n) for n in (1, 2, 3)]

    def setup(self, c):
        nd = c.cfg["ndim"]
        return (c.ints("r", nd, lo=1), c.ints("w", nd, lo=1)), {}

    def ensures(self, c, a, k, res):
        r, w = a
        yield "rank", len(res) == len(r)
        for i in range(len(r)):
            yield f"is-min[{i}]", res[i] == c.min(r[i], w[i])


@register
class FixCopyChunks(FuncSpec):
    pure_replay = True  # plain-value arguments: counterexamples are run through the real function (pyvc/replay_pure.py)
    """_fix_copy_chunks(shape, copy_chunks, target_chunks): per axis the result is the copy chunk itself when it is not
    larger than the target chunk, the full extent, or already a multiple; otherwise it is rounded *down* to the largest
    multiple of the target chunk.  ensures 1 <= result <= copy chunk and (result <= target or result == extent or
    result % target == 0) — i.e. a copy chunk larger than the target chunk always covers whole target chunks."""

    target = f"{RCH}:_fix_copy_chunks"
    props = ("C14", "C05")

    def configs(self, tier):
        return [dict(ndim=n) for n in (1, 2, 3)]

    def setup(self, c):
        nd = c.cfg["ndim"]
        shape = c.ints("n", nd, lo=1)
        cc = c.ints("cc", nd, lo=1)
        tc = c.ints("tc", nd, lo=1)
        for n, x, t in zip(shape, cc, tc):
            c.assume(x <= n)
            c.assume(t <= n)
        return (shape, cc, tc), {}

    def ensures(self, c, a, k, res):
        shape, cc, tc = a
        for i in range(len(shape)):
            yield f"not-larger-than-requested[{i}]", c.And(res[i] >= 1, res[i] <= cc[i])
            yield f"covers-whole-target-chunks-when-larger[{i}]", c.Or(res[i] <= tc[i], res[i] == shape[i], res[i] % tc[i] == 0)
            yield f"unchanged-when-already-aligned[{i}]", c.implies(c.Or(cc[i] <= tc[i], cc[i] == shape[i], cc[i] % tc[i] == 0), res[i] == cc[i])
            yield f"largest-such-multiple[{i}]", c.implies(c.Not(c.Or(cc[i] <= tc[i], cc[i] == shape[i], cc[i] % tc[i] == 0)), res[i] + tc[i] > cc[i])

    def canaries(self, c, a, k, res):
        yield "canary:never-changes", res[0] == a[1][0]


class GeomRows:
    """np.geomspace(start, stop, num) — assumed contract: `num` values (rows for tuple endpoints), the first equal to
    start, the last equal to stop, every value between min and max of its endpoints, monotone along the row index."""

    def __init__(self, c, start, stop, num):
        ctx = c.ctx
        ctx.note_assumption("np.geomspace: exact endpoints, values between the endpoints, monotone (assumed contract)")
        self.scalar = not isinstance(start, (tuple, list))
        s = (start,) if self.scalar else tuple(start)
        e = (stop,) if self.scalar else tuple(stop)
        if not isinstance(num, int):
            raise Unsupported("geomspace with a symbolic number of samples")
        rows = []
        for r in range(num):
            row = []
            for i, (a, b) in enumerate(zip(s, e)):
                if r == 0:
                    row.append(a * 1.0 if not isinstance(a, int) else wrap(z3.ToReal(tz(a))) if False else _to_real(a))
                elif r == num - 1:
                    row.append(_to_real(b))
                else:
                    v = ctx.fresh_real("geo")
                    lo, hi = c.min(a, b), c.max(a, b)
                    ctx.assume(z3.And(v.t >= z3.ToReal(tz(lo)), v.t <= z3.ToReal(tz(hi))))
                    prev = rows[r - 1][i]
                    ctx.assume(z3.If(tz(a) <= tz(b), v.t >= tz(prev), v.t <= tz(prev)))
                    row.append(v)
            rows.append(row)
        if num >= 2:
            pass
        self.rows = rows

    def value(self):
        if self.scalar:
            return [r[0] for r in self.rows]
        return [list(r) for r in self.rows]


def _to_real(a):
    if isinstance(a, int):
        return float(a)
    return wrap(z3.ToReal(tz(a)))


def install_planner_env(c):
    it = c.interp
    NO = it.world.native_overrides

    def geomspace(start, stop, num=50, **k):
        return GeomRows(c, start, stop, num).value()

    NO["numpy.geomspace"] = geomspace
    S = it.world.summaries

    def io_ops(itx, fn, a, k):
        itx.ctx.note_assumption("calculate_single_stage_io_ops: an arbitrary positive count (only steers when the search stops)")
        return itx.ctx.fresh_int("io_ops", lo=1)

    S[f"{ALG}:calculate_single_stage_io_ops"] = io_ops


@register
class Multspace(FuncSpec):
    pure_replay = True  # plain-value arguments: counterexamples are run through the real function (pyvc/replay_pure.py)
    """_multspace(start, stop, num) for 1 <= start <= stop: every yielded value is >= 1, not larger than the
    geomspace sample it was derived from, and an exact multiple of the previously yielded value (loop invariant
    1 <= vint <= previous sample) — so consecutive regular stage chunks nest."""

    target = f"{RCH}:_multspace"
    props = ("C14",)
    bounded = ("num enumerated 0..3 (number of geomspace samples is structural); start/stop unbounded",)

    def configs(self, tier):
        return [dict(num=n) for n in (0, 1, 2, 3)]

    def install(self, c):
        install_planner_env(c)

    def setup(self, c):
        start = c.int("start", lo=1)
        stop = c.int("stop", lo=1)
        c.assume(start <= stop)
        return (start, stop, c.cfg["num"]), {}

    def ensures(self, c, a, k, res):
        start, stop, num = a
        ys = list(res)
        yield "count", len(ys) == num + 2
        prev = 1
        for j, y in enumerate(ys):
            yield f"positive[{j}]", y >= 1
            yield f"multiple-of-previous[{j}]", y % prev == 0
            yield f"within-range[{j}]", c.And(y <= stop)
            prev = y
        if ys:
            yield "starts-at-start", ys[0] == start


class PlannerSpec(FuncSpec):
    pure_replay = True  # plain-value arguments: counterexamples are run through the real function (pyvc/replay_pure.py)
    """common contract of the two multistage planners (stage count cut at `bound`)."""

    props = ("C14", "C05", "C17")
    regular = False
    bound = 2
    max_paths = 6000
    max_seconds = 1800  # rank 2 (thorough) needs most of an hour of nonlinear solving

    quick_props = ("C14", "C05")

    def configs(self, tier):
        # rank 2 takes several minutes (nonlinear products of all chunk sizes): thorough tier
        return [dict(ndim=1)] if tier == "quick" else [dict(ndim=1), dict(ndim=2)]

    def install(self, c):
        install_planner_env(c)
        # main search loop: `for stage_count in range(1, MAX_STAGES)` — ordinal depends on consolidate_reads loop before it
        c.interp.loop_specs[(self.target, 2)] = BoundedFor(self.bound)

    def setup(self, c):
        nd = c.cfg["ndim"]
        shape = c.ints("shape", nd, lo=1)
        src = c.ints("src", nd, lo=1)
        tgt = c.ints("tgt", nd, lo=1)
        for n, s_, t_ in zip(shape, src, tgt):
            c.assume(s_ <= n)
            c.assume(t_ <= n)
        itemsize = c.int("itemsize", lo=1)
        min_mem, max_mem = c.int("min_mem"), c.int("max_mem")
        c.v = (shape, src, tgt, itemsize, min_mem, max_mem)
        return (shape, src, tgt, itemsize, min_mem, max_mem), {}

    def ensures(self, c, a, k, plan):
        shape, src, tgt, itemsize, min_mem, max_mem = c.v
        nd = len(shape)
        yield "non-empty", len(plan) >= 1
        for kx, st in enumerate(plan):
            pre, mid, post = st
            yield f"stage[{kx}]:rank", len(pre) == nd and len(mid) == nd and len(post) == nd
            for i in range(nd):
                yield f"stage[{kx}]:intermediate-is-min-of-neighbours[{i}]", mid[i] == c.min(pre[i], post[i])
                yield f"stage[{kx}]:chunks-positive-and-within-extent[{i}]", c.And(pre[i] >= 1, post[i] >= 1, pre[i] <= shape[i], post[i] <= shape[i])
                if self.regular:
                    yield f"stage[{kx}]:copy-covers-whole-written-chunks[{i}]", c.Or(pre[i] % mid[i] == 0, pre[i] == shape[i])
            if kx + 1 < len(plan):
                yield f"stage[{kx}]:next-stage-reads-what-this-wrote", c.eq_tuple(plan[kx + 1][0], post)
        first, last = plan[0][0], plan[-1][2]
        yield "first-read-within-budget", itemsize * c.prod(first) <= max_mem
        yield "last-write-within-budget", itemsize * c.prod(last) <= max_mem
        for i in range(nd):
            yield f"last-write-is-multiple-of-target-or-full[{i}]", c.Or(last[i] % tgt[i] == 0, last[i] == shape[i])
            if self.regular:
                yield f"first-read-not-above-consolidated-source[{i}]", first[i] >= 1
            else:
                yield f"first-read-at-least-source-chunk[{i}]", first[i] >= src[i]
        if len(plan) == 1:
            yield "single-stage-intermediate-within-budget", itemsize * c.prod(plan[0][1]) <= max_mem

    def raises(self, c, a, k, e):
        shape, src, tgt, itemsize, min_mem, max_mem = c.v
        if e.etype is ValueError:
            return c.Or(itemsize * c.prod(src) > max_mem, itemsize * c.prod(tgt) > max_mem, max_mem < min_mem)
        return None


@register
class MultistageRechunkingPlan(PlannerSpec):
    """multistage_rechunking_plan(shape, source_chunks, target_chunks, itemsize, min_mem, max_mem) (vendored rechunker):
    ValueError exactly for over-budget source/target chunks or max_mem < min_mem; otherwise a non-empty chain of
    (read, intermediate, write) stages: stage k+1 reads what stage k wrote, every intermediate is the elementwise min of
    its neighbours, the first read chunks are the consolidated source chunks (>= source chunks, within budget), the last
    write chunks are a multiple of the target chunks or the full extent and within budget."""

    target = f"{ALG}:multistage_rechunking_plan"
    bounded = ("number of stages cut at 2 (stage_count 1..2 of the search loop); `every intermediate stage fits the budget' "
               "rests on a real-exponent argument and geomspace rounding and is not decided for multi-stage plans",)


@register
class MultistageRegularRechunkingPlan(PlannerSpec):
    """multistage_regular_rechunking_plan (cubed/core/rechunk.py): as above, and in addition every stage's copy chunk
    covers whole chunks of what it writes (copy % intermediate == 0 or copy == extent) — the alignment _rechunk needs
    when irregular intermediate grids are not allowed."""

    target = f"{RCH}:multistage_regular_rechunking_plan"
    regular = True
    bounded = MultistageRechunkingPlan.bounded


from pyvc.arrays import make_spec  # noqa: E402


@register
class RechunkPlanPairs(FuncSpec):
    """_rechunk_plan(x, chunks, min_mem, allow_irregular): the (copy_chunks, target_chunks) pairs it yields for rechunk()'s
    loop.  The planner is used through its *contract* (PlannerSpec.ensures above, <= 2 stages); the obligations are the
    precondition of `_rechunk` for every yielded pair and the chain clauses:
      * at least one pair unless the array already has the requested chunking (or has no elements);
      * every pair: target chunk within the extent; in regular mode copy % target == 0 or copy == extent
        (`_rechunk[regular]`.requires — each copy task writes whole chunks of its target);
      * the last pair's target is the requested chunking, so rechunk() returns an array chunked as asked."""

    target = f"{OPS}:_rechunk_plan"
    props = ("C14", "C05")
    bounded = ("planner contract used with plans of at most 2 stages",)

    def configs(self, tier):
        out = []
        for nd in ((1,) if tier == "quick" else (1, 2)):
            for regular in (True, False):
                for stages in (1, 2):
                    out.append(dict(ndim=nd, regular=regular, stages=stages))
        return out

    def install(self, c):
        gb.install(c)
        S = c.interp.world.summaries
        regular = c.cfg["regular"]

        def planner(it, fn, a, k):
            shape, src, tgt = k["shape"], k["source_chunks"], k["target_chunks"]
            itemsize, max_mem = k["itemsize"], k["max_mem"]
            nd = len(shape)
            plan = []
            for kx in range(c.cfg["stages"]):
                pre = tuple(c.int(f"st{kx}_read{i}", lo=1) for i in range(nd))
                post = tuple(c.int(f"st{kx}_write{i}", lo=1) for i in range(nd))
                mid = tuple(c.min(p, q) for p, q in zip(pre, post))
                for i in range(nd):
                    c.assume(pre[i] <= shape[i])
                    c.assume(post[i] <= shape[i])
                    if regular:
                        c.assume(c.Or(pre[i] % mid[i] == 0, pre[i] == shape[i]))
                if plan:
                    for i in range(nd):
                        c.assume(pre[i] == plan[-1][2][i])
                plan.append((pre, mid, post))
            last = plan[-1][2]
            for i in range(nd):
                c.assume(c.Or(last[i] % tgt[i] == 0, last[i] == shape[i]))
                if not regular:
                    c.assume(plan[0][0][i] >= src[i])
            c.planner_args = dict(shape=shape, src=src, tgt=tgt, max_mem=max_mem, itemsize=itemsize)
            c.ctx.note_assumption("multistage planner used through its contract (PlannerSpec.ensures), plans of <= 2 stages")
            return plan

        S[f"{ALG}:multistage_rechunking_plan"] = planner
        S[f"{RCH}:multistage_regular_rechunking_plan"] = planner

    def setup(self, c):
        nd = c.cfg["ndim"]
        c.spec_obj = make_spec(c)
        x = sym_array(c, "x", nd, spec=c.spec_obj, min_extent=1)  # zero-size arrays return before planning
        tgt = tuple(c.int(f"tgt{i}", lo=1) for i in range(nd))
        for t, n in zip(tgt, x.shape):
            c.assume(t <= n)
        c.x, c.tgt = x, tgt
        return (x, tgt), dict(allow_irregular=not c.cfg["regular"])

    def call(self, c, args, kwargs):
        it = c.interp
        fn = it.world.lookup(self.target)
        return list(it.iterate(it.call(fn, list(args), dict(kwargs))))

    def ensures(self, c, a, k, pairs):
        x, tgt = c.x, c.tgt
        nd = len(tgt)
        same = c.And(*[xc == t for xc, t in zip(x.chunksize, tgt)])
        if not pairs:
            yield "no-copy-only-if-already-chunked-as-requested", same
            return
        yield "pairs-only-if-rechunking-is-needed", c.Not(same)
        for j, (copy, target) in enumerate(pairs):
            yield f"pair[{j}]:rank", len(copy) == nd and len(target) == nd
            for i in range(nd):
                yield f"pair[{j}]:target-chunk-within-extent[{i}]", c.And(target[i] >= 1, target[i] <= x.shape[i])
                yield f"pair[{j}]:copy-chunk-within-extent[{i}]", c.And(copy[i] >= 1, copy[i] <= x.shape[i])
                if c.cfg["regular"]:
                    yield f"pair[{j}]:_rechunk.requires:copy-covers-whole-target-chunks[{i}]", c.Or(copy[i] % target[i] == 0, copy[i] == x.shape[i])
        yield "last-target-is-the-requested-chunking", c.eq_tuple(pairs[-1][1], tgt)

    def raises(self, c, a, k, e):
        return None
