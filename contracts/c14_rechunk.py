"""C14 — rechunk planner contracts (real source: cubed/vendor/rechunker/algorithm.py, cubed/core/rechunk.py)."""
from __future__ import annotations

from pyvc.spec import FuncSpec, register
from pyvc.sym import PyExc

ALG = "cubed.vendor.rechunker.algorithm"
RCH = "cubed.core.rechunk"


def ranks(tier):
    return (1, 2) if tier == "quick" else (1, 2, 3)


@register
class ConsolidateChunks(FuncSpec):
    """consolidate_chunks(shape, chunks, itemsize, max_mem, chunk_limits)

    requires  (type invariants only) shape[i] >= 1, 1 <= chunks[i] <= shape[i], itemsize >= 1, len(chunk_limits) == ndim
    ensures   itemsize*prod(new) <= max_mem; new[i] == chunks[i] on axes that are not consolidated;
              chunks[i] <= new[i] <= min(shape[i], limit_i) on consolidated axes and new[i] is a multiple of
              chunks[i] or the (limited) full extent
    raises    ValueError iff the original chunk does not fit or a limit is below the chunk size; never AssertionError
    """

    target = f"{ALG}:consolidate_chunks"
    props = ("C14", "C17")

    def configs(self, tier):
        out = []
        for nd in ranks(tier):
            out.append(dict(ndim=nd, limits="none"))
            out.append(dict(ndim=nd, limits="mixed"))
        return out

    def setup(self, c):
        nd = c.cfg["ndim"]
        shape = c.ints("shape", nd, lo=1)
        chunks = c.ints("chunks", nd, lo=1)
        for s_, c_ in zip(shape, chunks):
            c.assume(c_ <= s_)  # a chunking of an array: callers pass to_chunksize(normalize_chunks(..)) <= extent
        itemsize = c.int("itemsize", lo=1)
        max_mem = c.int("max_mem")
        if c.cfg["limits"] == "none":
            limits = None
        else:
            limits = []
            for i in range(nd):
                if c.ctx.branch(c.bool(f"limit{i}_is_none").t):
                    limits.append(None)
                else:
                    limits.append(c.int(f"limit{i}"))
        c.lim = limits
        return (shape, chunks, itemsize, max_mem, limits), {}

    def _eff(self, c, shape, chunks, limits, i):
        """effective upper bound of axis i (None: axis not consolidated)."""
        if limits is None:
            return shape[i]
        cl = limits[i]
        if cl is None:
            return None
        return c.ite(cl == -1, shape[i], c.ite(cl > shape[i], shape[i], cl))

    def ensures(self, c, a, k, new):
        shape, chunks, itemsize, max_mem, limits = a
        nd = len(shape)
        yield "result-rank", len(new) == nd
        yield "within-budget", itemsize * c.prod(new) <= max_mem
        for i in range(nd):
            ub = self._eff(c, shape, chunks, limits, i)
            if ub is None:
                yield f"unconsolidated-axis-unchanged[{i}]", new[i] == chunks[i]
            else:
                yield f"grown-not-shrunk[{i}]", new[i] >= chunks[i]
                yield f"at-most-extent-and-limit[{i}]", c.And(new[i] <= shape[i], new[i] <= ub)
                yield f"multiple-of-source-or-full[{i}]", c.Or(new[i] % chunks[i] == 0, new[i] == ub)

    def raises(self, c, a, k, e: PyExc):
        shape, chunks, itemsize, max_mem, limits = a
        if e.etype is not ValueError:
            return None
        too_big = itemsize * c.prod(chunks) > max_mem
        bad = []
        for i in range(len(shape)):
            cl = shape[i] if limits is None else limits[i]
            if cl is None:
                continue
            bad.append(c.And(cl != -1, cl < chunks[i], cl <= shape[i]))
        return c.Or(too_big, *bad)

    def canaries(self, c, a, k, new):
        shape, chunks, itemsize, max_mem, limits = a
        yield "canary:strictly-below-budget", itemsize * c.prod(new) < max_mem
        yield "canary:always-full-extent", new[0] == shape[0]

    def replay(self, cfg, model, ob):
        nd = cfg["ndim"]
        g = lambda n, d=1: model.get(n, d)
        shape = tuple(g(f"shape{i}") for i in range(nd))
        chunks = tuple(g(f"chunks{i}") for i in range(nd))
        if cfg["limits"] == "none":
            limits = None
        else:
            limits = [None if model.get(f"limit{i}_is_none", True) else g(f"limit{i}", 1) for i in range(nd)]
        return f"""
from math import prod
from cubed.vendor.rechunker.algorithm import consolidate_chunks
shape, chunks, itemsize, max_mem, limits = {shape!r}, {chunks!r}, {g('itemsize')!r}, {g('max_mem', 0)!r}, {limits!r}
try:
    new = consolidate_chunks(shape, chunks, itemsize, max_mem, limits)
    ok = itemsize*prod(new) <= max_mem and all(n >= c for n, c in zip(new, chunks)) and all(n <= s for n, s in zip(new, shape))
    for i in range(len(shape)):
        cl = shape[i] if limits is None else limits[i]
        if cl is None:
            ok = ok and new[i] == chunks[i]
        else:
            ub = shape[i] if cl == -1 or cl > shape[i] else cl
            ok = ok and new[i] <= ub and (new[i] % chunks[i] == 0 or new[i] == ub)
    reproduced, detail = (not ok), f"consolidate_chunks{{(shape, chunks, itemsize, max_mem, limits)}} -> {{new}}"
except ValueError as e:
    bad = itemsize*prod(chunks) > max_mem or any((shape[i] if limits is None else limits[i]) is not None and (shape[i] if limits is None else limits[i]) != -1 and (shape[i] if limits is None else limits[i]) < chunks[i] for i in range(len(shape)))
    reproduced, detail = (not bad), f"ValueError: {{e}}"
except Exception as e:
    reproduced, detail = True, f"{{type(e).__name__}}: {{e}}"
"""
