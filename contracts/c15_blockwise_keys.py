"""C15 — blockwise block addressing follows the index expression
(cubed/primitive/blockwise.py make_blockwise_back_key_function[_flattened], cubed/vendor/dask/blockwise.py)."""
from __future__ import annotations

import itertools
import os
import random

from pyvc.interp import IObj, OpaqueFn
from pyvc.spec import FuncSpec, register

PB = "cubed.primitive.blockwise"
SYMS = "ijkl"


def index_algebra(out_ind, args, numblocks, oc):
    """Independent reference: what every argument must receive for output block `oc`.
    -> ("reject", reason) | ("keys", [nested key per argument])"""
    for name, ind in args:
        for p, s in enumerate(ind):
            if s not in out_ind and numblocks[name][p] > 1:
                return ("reject", f"contracted index {s} of {name} has more than one block")
    sizes = {}
    for name, ind in args:
        for p, s in enumerate(ind):
            nb = numblocks[name][p]
            if nb != 1:
                if sizes.get(s, nb) != nb:
                    return ("reject", f"block counts of index {s} do not align")
                sizes[s] = nb
    keys = []
    for name, ind in args:
        coords, depth = [], 0
        for p, s in enumerate(ind):
            if s in out_ind:
                coords.append(oc[out_ind.index(s)] if numblocks[name][p] > 1 else 0)
            else:
                coords.append(0)
                depth += 1
        key = (name,) + tuple(coords)
        for _ in range(depth):
            key = [key]
        keys.append(key)
    return ("keys", keys)


def all_patterns(max_syms, max_args, max_rank):
    pats = []
    for ns in range(1, max_syms + 1):
        syms = SYMS[:ns]
        for r_out in range(0, min(ns, max_rank) + 1):
            for out_ind in itertools.permutations(syms, r_out):
                inds_pool = [p for r in range(0, min(ns, max_rank) + 1) for p in itertools.permutations(syms, r)]
                for na in range(1, max_args + 1):
                    for inds in itertools.product(inds_pool, repeat=na):
                        used = set(x for ind in inds for x in ind)
                        if used != set(syms) or not set(out_ind) <= used:
                            continue
                        pats.append((out_ind, inds))
    return pats


def numblock_choices(inds, rng, limit):
    slots = [(a, p) for a, ind in enumerate(inds) for p in range(len(ind))]
    total = 3 ** len(slots)
    if total <= limit:
        picks = range(total)
    else:
        picks = sorted(rng.sample(range(total), limit))
    for code in picks:
        nbs = [[None] * len(ind) for ind in inds]
        x = code
        for a, p in slots:
            nbs[a][p] = 1 + x % 3
            x //= 3
        yield nbs


@register
class BlockwiseKeyFunction(FuncSpec):
    """make_blockwise_back_key_function(func, output, out_indices, *arrind_pairs, numblocks, new_axes)
    and its flattened variant, for one concrete index pattern and block-count assignment (enumerated), *symbolic*
    output block coordinates:
    ensures  argument j receives key (name_j, c) with c[p] = oc[pos(ind_j[p])] if numblocks_j[p] > 1 else 0; an index
             missing from the output yields one level of list nesting per such position (single element, since
             multi-block contracted axes are rejected with ValueError at construction); argument order and names
             preserved; the flattened variant returns FunctionArgs of ChunkKeys with the same names/coordinates."""

    target = f"{PB}:make_blockwise_back_key_function_flattened"
    props = ("C15",)
    max_paths = 2000

    def configs(self, tier):
        seed = int(os.environ.get("VERIF_SEED", "0") or 0)
        rng = random.Random(seed)
        if tier == "quick":
            pats = all_patterns(3, 2, 2)
            rng.shuffle(pats)
            pats = pats[:60]
            lim = 3
        else:
            pats = all_patterns(3, 2, 3) + all_patterns(2, 3, 2)
            lim = 9
        cfgs = []
        for out_ind, inds in pats:
            for nbs in numblock_choices(inds, rng, lim):
                cfgs.append(dict(out=list(out_ind), inds=[list(i) for i in inds], nbs=nbs))
        # batch many patterns into one job to amortise start-up
        batches = [cfgs[i:i + 25] for i in range(0, len(cfgs), 25)]
        return [dict(batch=b) for b in batches]

    def setup(self, c):
        return (), {}

    def call(self, c, args, kwargs):
        it = c.interp
        mk = it.world.lookup(self.target)
        mk_plain = it.world.lookup(f"{PB}:make_blockwise_back_key_function")
        CK = it.world.lookup(f"{PB}:ChunkKey")
        results = []
        for n, cf in enumerate(c.cfg["batch"]):
            out_ind = tuple(cf["out"])
            names = [f"a{j}" for j in range(len(cf["inds"]))]
            aargs = [(nm, tuple(ind)) for nm, ind in zip(names, cf["inds"])]
            numblocks = {nm: tuple(nb) for nm, nb in zip(names, cf["nbs"])}
            pairs = []
            for nm, ind in aargs:
                pairs.extend((nm, ind))
            dims = {}
            for (nm, ind) in aargs:
                for p, s in enumerate(ind):
                    dims[s] = max(dims.get(s, 1), numblocks[nm][p])
            c.ctx.push()
            try:
                oc = tuple(c.ctx.fresh_int(f"oc{n}_{i}", lo=0) for i in range(len(out_ind)))
                for x, s in zip(oc, out_ind):
                    c.ctx.assume(x < dims[s])
                want = index_algebra(out_ind, aargs, numblocks, oc)
                tag = f"[{''.join(out_ind) or '-'}<-{','.join(''.join(i) or '-' for i in cf['inds'])}|{cf['nbs']}]"
                from pyvc.sym import PyExc

                fnobj = OpaqueFn("f")
                try:
                    bk = it.call(mk, [fnobj, "out", out_ind, *pairs], dict(numblocks=numblocks))
                    bkp = it.call(mk_plain, [fnobj, "out", out_ind, *pairs], dict(numblocks=numblocks))
                except PyExc as e:
                    ok = e.etype is ValueError and want[0] == "reject"
                    c.ctx.oblige(f"rejects-exactly-the-unsupported-patterns", ok, kind="raises", detail=f"{tag} {e.tname}{e.eargs} want={want[0]}")
                    continue
                if want[0] == "reject":
                    c.ctx.oblige("rejects-exactly-the-unsupported-patterns", False, kind="raises", detail=f"{tag} accepted but should be rejected: {want[1]}")
                    continue
                c.ctx.oblige("rejects-exactly-the-unsupported-patterns", True, kind="raises")
                got = it.call(bkp, [it.call(CK, ["out", oc], {})], {})
                ok = got[0] is fnobj and len(got) == 1 + len(aargs)
                c.ctx.oblige("plain:function-first-then-one-entry-per-argument", ok, detail=tag)
                if ok:
                    for j, (g, w) in enumerate(zip(got[1:], want[1])):
                        c.ctx.oblige("plain:argument-key-follows-index-expression", _eq_nested(c, g, w), detail=f"{tag} arg{j} got={g} want={w}")
                fa = it.call(bk, [it.call(CK, ["out", oc], {})], {})
                flatwant = []
                any_list = any(isinstance(w, list) for w in want[1])
                for w in want[1]:
                    flatwant.extend(_flatten(w) if any_list else [w])
                ok = isinstance(fa, IObj) and fa.cls.name == "FunctionArgs" and len(fa.attrs["args"]) == len(flatwant)
                c.ctx.oblige("flattened:one-ChunkKey-per-key", ok, detail=f"{tag} {fa} vs {flatwant}")
                if ok:
                    for g, w in zip(fa.attrs["args"], flatwant):
                        good = isinstance(g, IObj) and g.cls.name == "ChunkKey" and isinstance(w, tuple)
                        c.ctx.oblige("flattened:ChunkKey-names-and-coordinates", _eq_nested(c, (g.attrs["name"],) + tuple(g.attrs["coords"]), w) if good else False, detail=f"{tag} {g} vs {w}")
                    c.ctx.oblige("flattened:output-name", fa.attrs["output_name"] == "out")
            finally:
                c.ctx.pop()
        return None


def _flatten(x):
    if isinstance(x, list):
        out = []
        for y in x:
            out.extend(_flatten(y))
        return out
    return [x]


def _eq_nested(c, g, w):
    if isinstance(w, list):
        if not isinstance(g, list) or len(g) != len(w):
            return False
        return c.And(*[_eq_nested(c, a, b) for a, b in zip(g, w)])
    if not isinstance(g, tuple) or len(g) != len(w):
        return False
    if g[0] != w[0]:
        return False
    return c.And(*[a == b for a, b in zip(g[1:], w[1:])])
