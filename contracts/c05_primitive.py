"""C05 / C13 / C03 / C12 — the primitive layer that the universal contract rests on:
primitive general_blockwise (bookkeeping), ChunkKeys (task enumeration), apply_blockwise (write set)."""
from __future__ import annotations

import z3

from pyvc import gb, sym
from pyvc.arrays import Dtype, SymBlock, ZArr, normalize_chunks_contract, region
from pyvc.interp import GenList, IObj, Opaque, OpaqueFn
from pyvc.spec import FuncSpec, register
from pyvc.sym import PyExc, tb, tz
from pyvc.symseq import ChunkSeq

PB = "cubed.primitive.blockwise"


def zarr_in(c, label, nd, kind="lazy"):
    shape = tuple(c.int(f"{label}_n{i}", lo=1) for i in range(nd))
    chunks = tuple(c.int(f"{label}_c{i}", lo=1) for i in range(nd))
    for n, ch in zip(shape, chunks):
        c.assume(ch <= n)
    return ZArr(f"z:{label}", shape, Dtype(f"{label}.dt", c.int(f"{label}_isz", lo=1)), chunks, kind=kind)


class PrimSpec(FuncSpec):
    def install(self, c):
        S = gb.install(c)
        # this is the function under verification here: never summarised
        S.pop(f"{PB}:general_blockwise", None)


@register
class PrimitiveGeneralBlockwise(PrimSpec):
    """cubed.primitive.blockwise.general_blockwise — body verified against the `ensures` half of the universal
    contract: projected_mem by the memory formula over the largest chunk of *each* input and the largest output
    chunk; num_tasks == number of blocks of the output grid unless the caller supplies an explicit task list and
    count; task iterable is ChunkKeys over the normalised output chunks; lazily created targets have the declared
    shape/dtype and storage chunks `target_chunks_ or chunksize`; write proxies carry the task chunk size, in
    output order; ValueError when outputs disagree on the block grid."""

    target = f"{PB}:general_blockwise"
    props = ("C03", "C05", "C12", "C13")

    def configs(self, tier):
        out = []
        for nin in (1, 2):
            for nout in (1, 2):
                for nd in ((1,) if tier == "quick" else (1, 2)):
                    for tc in (False, True):
                        if tc and nout > 1:
                            continue
                        out.append(dict(nin=nin, nout=nout, ndim=nd, target_chunks=tc, explicit_tasks=False))
        out.append(dict(nin=1, nout=1, ndim=1, target_chunks=False, explicit_tasks=True))
        return out

    def setup(self, c):
        cf = c.cfg
        nd = cf["ndim"]
        ins = [zarr_in(c, f"in{i}", nd) for i in range(cf["nin"])]
        shapes, dtypes, chunkss, names = [], [], [], []
        for j in range(cf["nout"]):
            shape = tuple(c.int(f"out{j}_n{i}", lo=1) for i in range(nd))
            ch = tuple(c.int(f"out{j}_c{i}", lo=1) for i in range(nd))
            for n, x in zip(shape, ch):
                c.assume(x <= n)
            shapes.append(shape)
            chunkss.append(ch)
            dtypes.append(Dtype(f"out{j}.dt", c.int(f"out{j}_isz", lo=1)))
            names.append(f"array-out{j}")
        BC = c.interp.world.lookup("cubed.primitive.memory:BufferCopies")
        r, w = c.int("read_copies", lo=0), c.int("write_copies", lo=0)
        kw = dict(allowed_mem=c.int("allowed_mem", lo=0), reserved_mem=c.int("reserved_mem", lo=0),
                  target_stores=[Opaque(f"store{j}") for j in range(cf["nout"])], target_names=names,
                  shapes=shapes, dtypes=dtypes, chunkss=chunkss, in_names=[f"array-in{i}" for i in range(cf["nin"])],
                  extra_projected_mem=c.int("extra", lo=0), buffer_copies=BC(read=r, write=w))
        if cf["target_chunks"]:
            kw["target_chunks_"] = tuple(c.int(f"tc{i}", lo=1) for i in range(nd))
        if cf["explicit_tasks"]:
            kw["output_blocks"] = Opaque("output-blocks")
            kw["num_tasks"] = c.int("given_num_tasks", lo=0)
        c.v = dict(ins=ins, r=r, w=w, kw=kw)
        return (OpaqueFn("func"), OpaqueFn("keyfn"), *ins), kw

    def ensures(self, c, a, k, op):
        v, cf = c.v, c.cfg
        kw = v["kw"]
        it = c.interp
        nout, nd = cf["nout"], cf["ndim"]
        # memory formula
        mem = kw["reserved_mem"]
        for z in v["ins"]:
            m = z.dtype.itemsize
            for s in z.chunks:
                m = m * s
            mem = mem + m * (1 + v["r"])
        mem = mem + kw["extra_projected_mem"]
        outs = []
        for j in range(nout):
            m = kw["dtypes"][j].itemsize
            for s in kw["chunkss"][j]:
                m = m * s
            outs.append(m)
        mx = outs[0]
        for m in outs[1:]:
            mx = c.max(mx, m)
        yield "GB.mem:formula", op.projected_mem == mem + mx * (1 + v["w"])
        yield "GB.mem:covers-every-input-chunk-and-reserved", op.projected_mem >= kw["reserved_mem"]
        # tasks
        grids = normalize_chunks_contract(it, kw["chunkss"][-1], kw["shapes"][-1])
        nt = 1
        for g in grids:
            nt = nt * g.length()
        if cf["explicit_tasks"]:
            yield "GB.tasks:given-count-used", op.num_tasks == kw["num_tasks"]
            yield "GB.tasks:given-list-used", op.pipeline.mappable is kw["output_blocks"]
        else:
            yield "GB.tasks:num_tasks-is-grid-size", op.num_tasks == nt
            mp = op.pipeline.mappable
            yield "GB.tasks:iterable-is-ChunkKeys", isinstance(mp, IObj) and mp.cls.name == "ChunkKeys"
            cn = mp.attrs["chunks_normal"]
            yield "GB.tasks:iterable-over-the-output-grid", c.And(*[g1.grid_eq(g2) for g1, g2 in zip(cn, grids)])
        # targets
        tas = op.target_array if isinstance(op.target_array, list) else [op.target_array]
        yield "GB.meta:one-target-per-output", len(tas) == nout
        for j, ta in enumerate(tas):
            yield f"GB.meta:target-shape[{j}]", c.eq_tuple(ta.shape, kw["shapes"][j])
            yield f"GB.meta:target-dtype[{j}]", ta.dtype is kw["dtypes"][j]
            want = kw.get("target_chunks_") or kw["chunkss"][j]
            yield f"GB.meta:target-storage-chunks[{j}]", c.eq_tuple(ta.chunks, want)
            yield f"GB.meta:target-path-is-array-name[{j}]", ta.path == kw["target_names"][j]
        wm = op.pipeline.config.writes_map
        yield "GB.meta:write-proxies-in-output-order", list(wm.keys()) == kw["target_names"]
        for j, (nm, px) in enumerate(wm.items()):
            yield f"GB.meta:write-proxy-target[{j}]", px.array is tas[j]
            yield f"GB.meta:write-proxy-task-chunks[{j}]", c.eq_tuple(px.chunks, kw["chunkss"][j])
        yield "GB.meta:read-proxies-keyed-by-input-name", list(op.pipeline.config.reads_map.keys()) == kw["in_names"]
        for nm, z in zip(kw["in_names"], v["ins"]):
            yield f"GB.meta:read-proxy-array[{nm}]", op.pipeline.config.reads_map[nm].array is z
        yield "write_chunks", c.eq_tuple(op.write_chunks, kw["chunkss"][-1])
        yield "budget-passed-through", c.And(op.allowed_mem == kw["allowed_mem"], op.reserved_mem == kw["reserved_mem"])
        yield "source-names", list(op.source_array_names) == kw["in_names"]
        yield "key-function-installed", op.pipeline.config.back_key_function is a[1]

    def raises(self, c, a, k, e):
        if e.etype is ValueError and c.cfg["nout"] == 2:
            kw = c.v["kw"]
            g0 = normalize_chunks_contract(c.interp, kw["chunkss"][0], kw["shapes"][0])
            g1 = normalize_chunks_contract(c.interp, kw["chunkss"][1], kw["shapes"][1])
            return c.Or(*[a_.length() != b_.length() for a_, b_ in zip(g0, g1)])
        return None

    def canaries(self, c, a, k, op):
        yield "canary:num_tasks-is-one", op.num_tasks == 1
        yield "canary:memory-ignores-inputs", op.projected_mem == c.v["kw"]["reserved_mem"]


@register
class ChunkKeysIter(PrimSpec):
    """ChunkKeys(chunks_normal).__iter__(): the itertools.product of range(len(c)) per axis — every yielded
    coordinate lies inside the block grid and there are prod(numblocks) of them (exactly-once is the assumed
    contract of itertools.product over ranges)."""

    target = f"{PB}:ChunkKeys.__iter__"
    props = ("C05", "C13")

    def configs(self, tier):
        return [dict(ndim=nd) for nd in (1, 2, 3)]

    def setup(self, c):
        nd = c.cfg["ndim"]
        grids = tuple(ChunkSeq(c.int(f"n{i}", lo=0), c.int(f"c{i}", lo=1)) for i in range(nd))
        CK = c.interp.world.lookup(f"{PB}:ChunkKeys")
        c.grids = grids
        return (IObj(CK, dict(chunks_normal=grids)),), {}

    def ensures(self, c, a, k, res):
        it = c.interp
        nt = 1
        for g in c.grids:
            nt = nt * g.length()
        yield "count-is-grid-size", res.length() == nt
        kk = c.ctx.fresh_int("k", lo=0)
        c.ctx.push()
        try:
            c.ctx.assume(kk < res.length())
            e = res.get(it, kk)
            yield "elements-are-lists", isinstance(e, list)
            yield "element-rank", len(e) == len(c.grids)
            for i, (x, g) in enumerate(zip(e, c.grids)):
                yield f"element-in-grid[{i}]", c.And(x >= 0, x < g.length())
        finally:
            c.ctx.pop()
        c.ctx.note_assumption("itertools.product(range(n0), range(n1), ...) yields every tuple of the grid exactly once")


class StoreArr:
    """A storage array opened by a task: records reads and writes in the ghost trace."""

    def __init__(self, z, role):
        self.z, self.role = z, role
        self.shape, self.dtype = z.shape, z.dtype
        self.chunks = z.chunks
        self.store = Opaque(f"store-of:{z._label}")

    def _pyvc_getitem(self, interp, key):
        interp.ctx.effect("zarr-read", self.z._label, key)
        shape = []
        for sl, n in zip(key, self.shape):
            shape.append(sl.stop - sl.start)
        return SymBlock(tuple(shape), self.dtype, None, f"read:{self.z._label}")

    def _pyvc_setitem(self, interp, key, val):
        interp.ctx.effect("zarr-write", self.z._label, key, val)

    def _pyvc_getattr(self, interp, name):
        if name in ("shape", "dtype", "chunks", "store"):
            return getattr(self, name)
        if name == "set_basic_selection":
            def sbs(key, val, fields=None):
                interp.ctx.effect("zarr-write", self.z._label, key, val, fields)
            return sbs
        raise PyExc(AttributeError, (name,))


@register
class ApplyBlockwise(PrimSpec):
    """apply_blockwise(out_coords, config): the task body.
    ensures  for every write proxy, in order, exactly one write, of the block the function returned for that output,
             to exactly the region get_item(normalize_chunks(proxy.chunks, target.shape), out_coords); no read of a
             write target; every read goes through a read proxy named by the key function, at the region of the key's
             coordinates; nothing else is touched (frame)."""

    target = f"{PB}:apply_blockwise"
    props = ("C05", "C06", "C12")

    def configs(self, tier):
        if tier == "quick":
            return [dict(ndim=1, nout=1, nin=1), dict(ndim=1, nout=2, nin=2), dict(ndim=2, nout=1, nin=1), dict(ndim=2, nout=2, nin=1)]
        return [dict(ndim=nd, nout=no, nin=ni) for nd in (1, 2, 3) for no in (1, 2) for ni in (1, 2) if nd < 3 or no + ni < 4]

    def install(self, c):
        super().install(c)
        S = c.interp.world.summaries

        def open_if_lazy(it, fn, a, k):
            z = a[0]
            return StoreArr(z, "opened")

        S["cubed.storage.zarr:open_if_lazy_zarr_array"] = open_if_lazy

    def setup(self, c):
        it = c.interp
        nd, nout, nin = c.cfg["ndim"], c.cfg["nout"], c.cfg["nin"]
        PX = it.world.lookup("cubed.primitive.types:CubedArrayProxy")
        BS = it.world.lookup(f"{PB}:BlockwiseSpec")
        CK = it.world.lookup(f"{PB}:ChunkKey")
        FA = it.world.lookup(f"{PB}:FunctionArgs")
        ins = [zarr_in(c, f"in{i}", nd) for i in range(nin)]
        outs = [zarr_in(c, f"out{j}", nd) for j in range(nout)]
        # all outputs share the block grid of the task (established by general_blockwise)
        oc = [c.int(f"oc{i}", lo=0) for i in range(nd)]
        wgrids = []
        for z in outs:
            g = normalize_chunks_contract(it, z.chunks, z.shape)
            wgrids.append(g)
            for x, gi in zip(oc, g):
                c.assume(x < gi.length())
        in_coords = []
        for i, z in enumerate(ins):
            g = normalize_chunks_contract(it, z.chunks, z.shape)
            co = tuple(c.int(f"k{i}_{d}", lo=0) for d in range(nd))
            for x, gi in zip(co, g):
                c.assume(x < gi.length())
            in_coords.append((co, g))
        blocks = [SymBlock(tuple(c.int(f"blk{j}_{d}", lo=0) for d in range(nd)), outs[j].dtype, None, f"result{j}") for j in range(nout)]

        def keyfn(out_key):
            c.seen_out_key = out_key
            return it.call(FA, [it.call(CK, [f"array-in{i}", co], {}) for i, (co, g) in enumerate(in_coords)], dict(output_name="o"))

        def func(*args):
            c.func_args = args
            return tuple(blocks) if nout > 1 else blocks[0]

        reads = {f"array-in{i}": it.call(PX, [z, z.chunks], {}) for i, z in enumerate(ins)}
        writes = {f"array-out{j}": it.call(PX, [z, z.chunks], {}) for j, z in enumerate(outs)}
        cfg = it.call(BS, [keyfn, func, (1,) * nin, (1,) * nout, reads, writes], {})
        c.v = dict(ins=ins, outs=outs, oc=oc, wgrids=wgrids, in_coords=in_coords, blocks=blocks)
        c.eff0 = len(c.ctx.effects)
        return (list(oc),), dict(config=cfg)

    def ensures(self, c, a, k, res):
        v = c.v
        it = c.interp
        eff = [e for e in c.ctx.effects if e[0] in ("zarr-read", "zarr-write")]
        writes = [e for e in eff if e[0] == "zarr-write"]
        reads = [e for e in eff if e[0] == "zarr-read"]
        yield "returns-None", res is None
        yield "one-write-per-output", [e[1] for e in writes] == [z._label for z in v["outs"]]
        for j, e in enumerate(writes):
            reg = region(it, v["wgrids"][j], v["oc"])
            key = e[2]
            yield f"write-rank[{j}]", len(key) == len(reg)
            for d, (sl, (st, sz)) in enumerate(zip(key, reg)):
                yield f"write-region[{j},axis{d}]", c.And(sl.start == st, sl.stop == st + sz, sl.step is None)
            yield f"writes-the-function's-block[{j}]", e[3] is v["blocks"][j]
        yield "no-read-of-a-write-target", all(e[1] not in [z._label for z in v["outs"]] for e in reads)
        yield "reads-exactly-the-keyed-inputs", [e[1] for e in reads] == [z._label for z in v["ins"]]
        for i, e in enumerate(reads):
            co, g = v["in_coords"][i]
            reg = region(it, g, co)
            for d, (sl, (st, sz)) in enumerate(zip(e[2], reg)):
                yield f"read-region[{i},axis{d}]", c.And(sl.start == st, sl.stop == st + sz)
        yield "key-function-gets-the-task-coordinates", c.eq_tuple(c.seen_out_key.coords, v["oc"])
        yield "function-gets-one-block-per-key", len(c.func_args) == len(v["ins"])
        yield "reads-precede-writes", [e[0] for e in eff] == ["zarr-read"] * len(reads) + ["zarr-write"] * len(writes)
        window = c.ctx.effects[c.eff0:]
        fresh = {e[1] for e in window if e[0] == "alloc"}
        setattrs = [e for e in window if e[0] == "setattr" and e[1] not in fresh]
        yield "frame:assigns-only-objects-it-allocated", setattrs == []

    def canaries(self, c, a, k, res):
        eff = [e for e in c.ctx.effects if e[0] == "zarr-write"]
        if eff:
            yield "canary:writes-at-origin", eff[0][2][0].start == 0
