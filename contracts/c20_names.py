"""C20 — identity of arrays and operations: the per-process name generators (gensym x4)."""
from __future__ import annotations

from pyvc.interp import SymStr
from pyvc.spec import FuncSpec, register

GENSYMS = {
    "cubed.core.array:gensym": "array",
    "cubed.core.plan:gensym": "op",
    "cubed.primitive.blockwise:gensym": None,
    "cubed.core.optimization:gensym": "op",
}


def _mk(target, default):
    class G(FuncSpec):
        __doc__ = f"""{target}(name): requires counter == k >= 0 (the module-level sym_counter)
        ensures  sym_counter == k + 1 (strictly increasing, never reset), result is the text
                 "<name>-" followed by the decimal of k + 1 zero-padded to >= 3 digits — an injective function of k,
                 so names generated in one process are pairwise distinct; no other module state changes."""
        props = ("C20", "C10")

        def configs(self, tier):
            return [dict(explicit=False)] + ([dict(explicit=True)] if default is not None else []) if default is not None else [dict(explicit=True)]

        def setup(self, c):
            mod = c.interp.world.module(target.split(":")[0])
            k = c.int("counter", lo=0)
            mod.globals["sym_counter"] = k
            c.k, c.mod = k, mod
            mod.get(target.split(":")[1])
            c.before = dict(mod.globals)
            c.eff0 = len(c.ctx.effects)
            if c.cfg["explicit"]:
                return ("thing",), {}
            return (), {}

        def ensures(self, c, a, kw, res):
            name = a[0] if a else default
            yield "counter-incremented-by-one", c.mod.globals["sym_counter"] == c.k + 1
            yield "result-is-formatted-text", isinstance(res, SymStr)
            if isinstance(res, SymStr):
                yield "text-structure", len(res.parts) == 3 and res.parts[0] == name and res.parts[1] == "-"
                val, spec, conv = res.parts[2]
                yield "number-is-new-counter", val == c.k + 1
                yield "zero-padded-decimal-is-injective", spec == "03" and conv == -1
            changed = [g for g, v in c.before.items() if g != "sym_counter" and c.mod.globals.get(g) is not v]
            changed += [g for g in c.mod.globals if g not in c.before and g not in c.mod._defs]
            yield "frame:assigns-only-its-own-counter", changed == []

        def canaries(self, c, a, kw, res):
            yield "canary:counter-unchanged", c.mod.globals["sym_counter"] == c.k

    G.target = target
    G.__name__ = "Gensym_" + target.split(":")[0].split(".")[-1]
    return G


for _t, _d in GENSYMS.items():
    register(_mk(_t, _d))


# ---------------------------------------------------------------------------------------------------------------------
# plans are never confused with one another: finalisation (cached) is per plan *object*, not per set of names


import networkx as nx  # noqa: E402

from pyvc import gb as _gb  # noqa: E402
from pyvc.interp import IObj as _IObj, Opaque as _Opaque  # noqa: E402

PLAN = "cubed.core.plan"


@register
class FinalizePerPlan(FuncSpec):
    """Plan._finalize (an lru_cache'd method): two distinct plans whose arrays and operations happen to carry the same
    *names* (an array deserialized from another process next to a local one — names come from per-process counters)
    are finalised separately: the finalised plan returned for the second plan is built from the second plan's own
    nodes (its targets, its operations), never a cached result of the first."""

    target = f"{PLAN}:Plan._finalize"
    name = f"{PLAN}:Plan._finalize[per-plan]"
    props = ("C20",)

    def configs(self, tier):
        return [dict(shape=s, optimize=o) for s in (("chain2",) if tier == "quick" else ("chain2", "binary")) for o in (False, True)]

    def install(self, c):
        S = _gb.install(c)
        S["cubed.utils:memory_repr"] = lambda it, fn, a, k: "<mem>"
        S["cubed.primitive.blockwise:gensym"] = lambda it, fn, a, k: f"{a[0] if a else 'op'}-fresh"
        S[f"{PLAN}:FinalizedPlan._calculate_stats"] = lambda it, fn, a, k: None  # statistics only

    def setup(self, c):
        from contracts.c02_fusion import build_plan

        it = c.interp
        PlanCls = it.world.lookup(f"{PLAN}:Plan")
        d1, _m1, want = build_plan(c, c.cfg["shape"])
        d2, _m2, _ = build_plan(c, c.cfg["shape"])  # same node names, other objects (another process built it)
        names = tuple(want)
        c.p1 = _IObj(PlanCls, dict(dag=d1, array_names=names))
        c.p2 = _IObj(PlanCls, dict(dag=d2, array_names=names))
        c.d1, c.d2 = d1, d2
        c.ops = [n[3:] for n in d1 if n.startswith("op-") and "primitive_op" in d1.nodes[n]]
        return (), dict(optimize_graph=c.cfg["optimize"])

    def call(self, c, args, kwargs):
        it = c.interp
        f1 = it.call(it.getattr_(c.p1, "_finalize"), [], dict(kwargs))
        f2 = it.call(it.getattr_(c.p2, "_finalize"), [], dict(kwargs))
        c.f1 = f1
        return f2

    def ensures(self, c, a, k, f2):
        yield "distinct-plans-are-finalised-separately", f2 is not c.f1
        for o in c.ops:
            an = f"array-{o}"
            if an in f2.dag:
                yield f"finalised-plan-holds-its-own-target[{an}]", f2.dag.nodes[an]["target"] is c.d2.nodes[an]["target"]
            on = f"op-{o}"
            if on in f2.dag and "primitive_op" in f2.dag.nodes[on] and not c.cfg["optimize"]:
                yield f"finalised-plan-holds-its-own-operation[{on}]", f2.dag.nodes[on]["primitive_op"] is c.d2.nodes[on]["primitive_op"]

    def replay(self, cfg, model, ob):
        return """
import sys
sys.path.insert(0, '/verif')
from pyvc.replay_pickle import run_cross_process_case
reproduced, detail = run_cross_process_case(combine=False)
"""


# ---------------------------------------------------------------------------------------------------------------------
# the Names invariant at the deserialization boundary


import ast as _ast  # noqa: E402
import time as _time  # noqa: E402

import z3 as _z3  # noqa: E402

from pyvc.source import module_path as _module_path, parse_module as _parse_module  # noqa: E402

PICKLE_HOOKS = ("__reduce__", "__reduce_ex__", "__getstate__", "__setstate__", "__getnewargs__", "__getnewargs_ex__")


@register
class DeserializationEstablishesNames(FuncSpec):
    """Class invariant *Names* of the process: distinct live arrays carry distinct names (plans are merged by node
    name: arrays_to_dag composes the DAGs of its arguments with networkx.compose_all, and an array is looked up in a
    plan by its name).  Every way of bringing an array into existence has to establish it:
      * the constructors draw the name from the process's counter — gensym's contract (above): the name
        "array-<k+1>" is new and the counter moves past it;
      * deserialization: CoreArray / Array / Plan define no pickle hook (checked on the AST), so the default protocol
        restores `name` and the plan's node names verbatim and does not touch the counter.  The obligation
        `deserialization-establishes-Names` — the incoming name array-<k> (k >= 1 arbitrary: the sender's counter)
        is neither the name of an array this process has made (1 <= k <= n) nor one its counter will hand out later
        (k > n) — is the VC; a counter-model is replayed with two real processes."""

    target = "cubed.core.array:CoreArray"
    name = "cubed.core.array:CoreArray[deserialization]"
    props = ("C20",)
    trusted = ("default pickle protocol: object.__reduce_ex__ restores __dict__ verbatim when a class defines no pickle hook",)

    def configs(self, tier):
        return [{}]

    def analyze(self, cfg, tier):
        t0 = _time.time()
        obs = []
        hooks = []
        for mod, classes in (("cubed.core.array", ("CoreArray",)), ("cubed.array_api.array_object", ("Array",)), ("cubed.core.plan", ("Plan",))):
            tree, _ = _parse_module(_module_path(mod))
            for n in tree.body:
                if isinstance(n, _ast.ClassDef) and n.name in classes:
                    for st in n.body:
                        if isinstance(st, (_ast.FunctionDef, _ast.AsyncFunctionDef)) and st.name in PICKLE_HOOKS:
                            hooks.append(f"{mod}:{n.name}.{st.name}")
        if hooks:
            # a hook exists: this clause cannot speak for it (it would need its own contract)
            return dict(spec=self.name, target=self.target, cfg=cfg, paths=1, scoped_paths=0, infeasible=0,
                        undecided=[f"pickle hooks present, not under contract: {hooks}"], assumptions=list(self.trusted), canaries={},
                        cover=True, wall_s=round(_time.time() - t0, 3), solver_s=0.0, errors=[], outcomes={}, obligations=[])
        k, n = _z3.Int("incoming_k"), _z3.Int("local_counter")
        s = _z3.Solver()
        s.add(k >= 1, n >= 0)
        # negation of the obligation: the incoming name collides with a local name, now or later
        s.add(_z3.Or(_z3.And(1 <= k, k <= n), k > n))
        ts = _time.time()
        r = s.check()
        dt = _time.time() - ts
        if r == _z3.unsat:
            obs.append(dict(name="deserialization-establishes-Names", kind="invariant", result="discharged", paths=1, backend="z3",
                            solver_s=dt, where=["cubed/core/array.py"], failure=None))
        else:
            # prefer the witness in which the collision is with an array that already exists
            s.add(k <= n)
            s.check()
            m = s.model()
            model = {"incoming_k": m[k].as_long(), "local_counter": m[n].as_long()}
            obs.append(dict(name="deserialization-establishes-Names", kind="invariant", result="failed", paths=1, backend="z3",
                            solver_s=dt, where=["cubed/core/array.py"],
                            failure=dict(model=model, where="cubed/core/array.py", path=[], cfg=cfg,
                                         detail="no pickle hook re-establishes the invariant: the restored name array-%03d equals the "
                                                "name of a local array (counter %d)" % (model["incoming_k"], model["local_counter"]))))
        return dict(spec=self.name, target=self.target, cfg=cfg, paths=1, scoped_paths=0, infeasible=0, undecided=[],
                    assumptions=list(self.trusted), canaries={}, cover=True, wall_s=round(_time.time() - t0, 3), solver_s=dt,
                    errors=[], outcomes={}, obligations=obs)

    def replay(self, cfg, model, ob):
        return """
import sys
sys.path.insert(0, '/verif')
from pyvc.replay_pickle import run_cross_process_case
reproduced, detail = run_cross_process_case(combine=True)
"""
