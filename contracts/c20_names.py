"""C20 — identity of arrays and operations: the per-process name generators (gensym x4)."""
from __future__ import annotations

from pyvc.interp import SymStr
from pyvc.spec import FuncSpec, register

GENSYMS = {
    "cubed.core.array:gensym": "array",
    "cubed.core.plan:gensym": "op",
    "cubed.primitive.blockwise:gensym": None,
    "cubed.core.optimization:gensym": "op",
}


def _mk(target, default):
    class G(FuncSpec):
        __doc__ = f"""{target}(name): requires counter == k >= 0 (the module-level sym_counter)
        ensures  sym_counter == k + 1 (strictly increasing, never reset), result is the text
                 "<name>-" followed by the decimal of k + 1 zero-padded to >= 3 digits — an injective function of k,
                 so names generated in one process are pairwise distinct; no other module state changes."""
        props = ("C20", "C10")

        def configs(self, tier):
            return [dict(explicit=False)] + ([dict(explicit=True)] if default is not None else []) if default is not None else [dict(explicit=True)]

        def setup(self, c):
            mod = c.interp.world.module(target.split(":")[0])
            k = c.int("counter", lo=0)
            mod.globals["sym_counter"] = k
            c.k, c.mod = k, mod
            mod.get(target.split(":")[1])
            c.before = dict(mod.globals)
            c.eff0 = len(c.ctx.effects)
            if c.cfg["explicit"]:
                return ("thing",), {}
            return (), {}

        def ensures(self, c, a, kw, res):
            name = a[0] if a else default
            yield "counter-incremented-by-one", c.mod.globals["sym_counter"] == c.k + 1
            yield "result-is-formatted-text", isinstance(res, SymStr)
            if isinstance(res, SymStr):
                yield "text-structure", len(res.parts) == 3 and res.parts[0] == name and res.parts[1] == "-"
                val, spec, conv = res.parts[2]
                yield "number-is-new-counter", val == c.k + 1
                yield "zero-padded-decimal-is-injective", spec == "03" and conv == -1
            changed = [g for g, v in c.before.items() if g != "sym_counter" and c.mod.globals.get(g) is not v]
            changed += [g for g in c.mod.globals if g not in c.before and g not in c.mod._defs]
            yield "frame:assigns-only-its-own-counter", changed == []

        def canaries(self, c, a, kw, res):
            yield "canary:counter-unchanged", c.mod.globals["sym_counter"] == c.k

    G.target = target
    G.__name__ = "Gensym_" + target.split(":")[0].split(".")[-1]
    return G


for _t, _d in GENSYMS.items():
    register(_mk(_t, _d))
