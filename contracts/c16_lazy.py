"""C16 — building, planning and visualising are lazy and free of side effects (effect clauses over the call
graph of the real source; backend: pyvc-frame, no SMT)."""
from __future__ import annotations

import time

from pyvc.spec import FuncSpec, register

FORBIDDEN = {"execute", "storage-create", "storage-open-rw", "storage-write", "remove-tree"}
# declared execution entry points (the property's own list)
ENTRY = {
    "cubed.core.array:compute", "cubed.core.array:CoreArray.compute", "cubed.core.ops:store", "cubed.core.ops:to_zarr",
    "cubed.array_api.array_object:Array.__array__", "cubed.array_api.array_object:Array.__bool__",
    "cubed.array_api.array_object:Array.__int__", "cubed.array_api.array_object:Array.__float__",
    "cubed.array_api.array_object:Array.__index__", "cubed.array_api.array_object:Array.__complex__",
    "cubed.core.indexing:index", "cubed.core.array:CoreArray.__getitem__", "cubed.core.array:measure_reserved_mem",
    "cubed.core.array:CoreArray._read_stored",
}
# internal functions that must never touch storage or run anything
INTERNAL_LAZY = [
    "cubed.storage.zarr:LazyZarrArray.__init__", "cubed.storage.zarr:lazy_zarr_array", "cubed.core.plan:Plan._finalize",
    "cubed.core.plan:Plan._new", "cubed.core.plan:Plan.optimize", "cubed.core.plan:Plan._create_lazy_zarr_arrays",
    "cubed.core.plan:arrays_to_plan", "cubed.core.plan:arrays_to_dag", "cubed.core.array:plan", "cubed.core.array:visualize",
    "cubed.core.plan:FinalizedPlan.__init__", "cubed.core.plan:FinalizedPlan.visualize", "cubed.core.array:CoreArray.__init__",
    "cubed.primitive.blockwise:general_blockwise", "cubed.primitive.blockwise:blockwise", "cubed.core.ops:_store_array",
    "cubed.core.ops:blockwise", "cubed.core.ops:general_blockwise", "cubed.core.ops:map_blocks", "cubed.core.ops:rechunk",
    "cubed.core.optimization:multiple_inputs_optimize_dag", "cubed.core.optimization:simple_optimize_dag",
]
MUST_EXECUTE = ["cubed.core.array:compute", "cubed.core.plan:FinalizedPlan.execute", "cubed.core.ops:store", "cubed.core.ops:to_zarr"]


@register
class LazyEffects(FuncSpec):
    """For every public function of `cubed` and `cubed.array_api` (enumerated from __all__ on every run) and a list of
    internal constructors: the inferred effect summary contains none of {execute, storage-create, storage-open-rw,
    storage-write, remove-tree} unless the function is a declared execution entry point; allowed at build time are
    allocation, name generation, reading metadata of an existing Zarr array opened with the literal mode 'r', and
    registering the at-exit cleanup of the per-process directory."""

    target = "cubed:*"
    name = "cubed:public-api/lazy"
    props = ("C16",)
    trusted = ("static name resolution: effects reached only through dynamic dispatch on values are not seen",
               "library-internal subscripting of cubed arrays never passes a cubed array as key (index() with array keys computes)",
               "third-party calls not on the effect list are effect-free")

    def configs(self, tier):
        return [{}]

    def analyze(self, cfg, tier):
        from pyvc.effects import Analysis, public_api

        t0 = time.time()
        A = Analysis()
        obs = []

        def ob(name, ok, chain=None, where=None):
            obs.append(dict(name=name, kind="effect-clause", result="discharged" if ok else "failed", paths=1,
                            backend="pyvc-frame", solver_s=0.0, where=[where] if where else [],
                            failure=None if ok else dict(model={}, where=where, detail=chain, path=[], cfg=cfg)))

        api = public_api()
        seen = set()
        n_public = 0
        for mod, names in api.items():
            for nm in names:
                r = A.resolve_name(mod, nm)
                if r is None or r[0] != "fn" or r[1] in seen:
                    continue
                seen.add(r[1])
                n_public += 1
                summ = A.summary[r[1]]
                bad = {e: ch for e, ch in summ.items() if e in FORBIDDEN}
                if r[1] in ENTRY:
                    continue
                chain = "; ".join(f"{e}: " + " -> ".join(f"{c[0].split(':')[1]}@{c[1]}" for c in ch) for e, ch in bad.items())
                ob(f"lazy[{r[1]}]", not bad, chain, r[1])
        for q in INTERNAL_LAZY:
            if q not in A.fns:
                ob(f"lazy[{q}]", False, "function not found (renamed or removed): clause cannot be checked", q)
                continue
            bad = {e: ch for e, ch in A.summary[q].items() if e in FORBIDDEN}
            chain = "; ".join(f"{e}: " + " -> ".join(f"{c[0].split(':')[1]}@{c[1]}" for c in ch) for e, ch in bad.items())
            ob(f"lazy[{q}]", not bad, chain, q)
        # the array class itself: only the declared dunder conversions / compute / __getitem__ may execute
        for q, f in A.fns.items():
            if (q.startswith("cubed.array_api.array_object:Array.") or q.startswith("cubed.core.array:CoreArray.")) and q not in ENTRY:
                if q.count(".") > q.split(":")[0].count(".") + 2:
                    continue
                bad = {e: ch for e, ch in A.summary[q].items() if e in FORBIDDEN}
                # operators that index (x[...]) are covered by the index contract; everything else must be lazy
                chain = "; ".join(f"{e}: " + " -> ".join(f"{c[0].split(':')[1]}@{c[1]}" for c in ch) for e, ch in bad.items())
                ob(f"lazy[{q}]", not bad, chain, q)
        canaries = {}
        for q in MUST_EXECUTE:
            canaries[f"canary:{q}-is-seen-to-execute"] = q in A.fns and "execute" in A.summary[q]
        canaries["canary:LazyZarrArray.create-is-seen-to-touch-storage"] = "storage-open-rw" in A.summary.get("cubed.storage.zarr:LazyZarrArray.create", {})
        if n_public < 150:
            ob("public-api-enumerated", False, f"only {n_public} public functions resolved")
        else:
            ob("public-api-enumerated", True)
        return dict(spec=self.name, target=self.target, cfg=cfg, paths=len(A.fns), scoped_paths=0, infeasible=0, undecided=[],
                    assumptions=list(self.trusted), canaries=canaries, cover=True, wall_s=round(time.time() - t0, 3),
                    solver_s=0.0, errors=[], outcomes={"functions": len(A.fns), "public": n_public}, obligations=obs)
