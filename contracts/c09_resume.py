"""C09 / C06 / C07 — resume and array creation: already_computed, skip_node, create_zarr_array, open_zarr_v3_array,
LazyZarrArray.create/open, the zarr configuration literal."""
from __future__ import annotations

import ast

import networkx as nx

from pyvc.interp import IObj, Opaque
from pyvc.source import ExternalStub, module_path, parse_module
from pyvc.spec import FuncSpec, register
from pyvc.stubs import Recorder
from pyvc.sym import PyExc

PLAN = "cubed.core.plan"


class Target:
    """A storage array as already_computed sees it."""

    def __init__(self, c, label, kind):
        self.kind = kind
        self.label = label
        if kind in ("complete", "partial", "any"):
            self.ndim = c.int(f"{label}_ndim", lo=0)
            self.nchunks = c.int(f"{label}_nchunks", lo=1)
            self.nchunks_initialized = c.int(f"{label}_init", lo=0)
            c.assume(self.nchunks_initialized <= self.nchunks)
        elif kind == "no-counter":
            self.ndim = c.int(f"{label}_ndim", lo=0)
            self.nchunks = c.int(f"{label}_nchunks", lo=1)


@register
class AlreadyComputed(FuncSpec):
    """already_computed(name, dag, nodes)
    ensures  True iff the node has no pipeline, or at least one output has a target and every output that has a target
             has ndim != 0 and nchunks_initialized == nchunks;  a missing array (ArrayNotFoundError) counts as not
             computed;  NotImplementedError for a target that cannot report nchunks_initialized."""

    target = f"{PLAN}:already_computed"
    props = ("C09",)

    KINDS = ("none", "any", "missing", "no-counter")

    def configs(self, tier):
        out = [dict(pipeline=False, outs=["any"])]
        for k1 in self.KINDS:
            out.append(dict(pipeline=True, outs=[k1]))
        for k1 in self.KINDS:
            for k2 in self.KINDS:
                out.append(dict(pipeline=True, outs=[k1, k2]))
        return out

    def install(self, c):
        S = c.interp.world.summaries
        ANF = c.interp.world.import_from("zarr.errors", "ArrayNotFoundError")

        def open_if_lazy(it, fn, a, k):
            t = a[0]
            it.ctx.effect("storage", "open", t.label)
            if t.kind == "missing":
                raise PyExc(ANF, ("array not found",))
            return t

        S["cubed.storage.zarr:open_if_lazy_zarr_array"] = open_if_lazy

    def setup(self, c):
        dag = nx.MultiDiGraph()
        nodes = {}
        name = "op-001"
        nodes[name] = dict(name=name, type="op")
        if c.cfg["pipeline"]:
            nodes[name]["pipeline"] = Opaque("pipeline")
        dag.add_node(name)
        c.targets = []
        for i, kind in enumerate(c.cfg["outs"]):
            an = f"array-{i:03}"
            t = None if kind == "none" else Target(c, f"t{i}", kind)
            c.targets.append(t)
            nodes[an] = dict(name=an, type="array", target=t)
            dag.add_node(an)
            dag.add_edge(name, an)
        return (name, dag, nodes), {}

    def _spec(self, c):
        ts = c.targets
        if not c.cfg["pipeline"]:
            return "value", True
        if all(t is None for t in ts):
            return "value", False
        conds = []
        for t in ts:
            if t is None:
                continue
            if t.kind == "missing":
                return_now = ("value-if", conds, False)
                return return_now
            if t.kind == "no-counter":
                return ("raise-if", conds)
            conds.append(c.And(t.ndim != 0, t.nchunks_initialized == t.nchunks))
        return "all", conds

    def ensures(self, c, a, k, res):
        sp = self._spec(c)
        if sp[0] == "value":
            yield "result", res is sp[1]
        elif sp[0] == "all":
            yield "true-iff-every-output-complete", c.And(*sp[1]) if res else c.Not(c.And(*sp[1]))
        elif sp[0] == "value-if":
            # an earlier incomplete output returns False first; otherwise the missing array gives False
            yield "missing-array-is-not-computed", res is False
        elif sp[0] == "raise-if":
            # returned without raising: only possible because an earlier output was incomplete
            yield "returns-before-uncountable-target-only-if-earlier-output-incomplete", c.And(res is False, c.Not(c.And(*sp[1]))) if sp[1] else False

    def raises(self, c, a, k, e):
        sp = self._spec(c)
        if e.etype is NotImplementedError and sp[0] == "raise-if":
            return c.And(*sp[1]) if sp[1] else True
        return None

    def canaries(self, c, a, k, res):
        if c.cfg["outs"] == ["any"] and c.cfg["pipeline"]:
            t = c.targets[0]
            yield "canary:partial-array-counts-as-computed", c.implies(t.nchunks_initialized < t.nchunks, res)
            yield "canary:zero-dim-trusted", c.implies(c.And(t.ndim == 0, t.nchunks_initialized == t.nchunks), res)


@register
class AlreadyComputedHistoryFree(AlreadyComputed):
    """already_computed is a function of the *current* storage state only: called a second time for the same node after
    the node's targets were replaced (what a store does when it re-targets an array) or lost chunks, the verdict follows
    the second state — no verdict is remembered across calls (frame: no module-level state carries information from
    one call to the next)."""

    name = f"{PLAN}:already_computed[history-free]"
    props = ("C09", "C10")

    def configs(self, tier):
        return [dict(pipeline=True, outs=["any"]), dict(pipeline=True, outs=["any", "any"])]

    def call(self, c, args, kwargs):
        it = c.interp
        fn = it.world.lookup(self.target)
        name, dag, nodes = args
        first = it.call(fn, [name, dag, nodes], {})
        c.first, c.first_targets = first, list(c.targets)
        # the same arrays (same names) now have other targets / another fill state
        c.targets = []
        for i, kind in enumerate(c.cfg["outs"]):
            t = Target(c, f"u{i}", kind)
            c.targets.append(t)
            nodes[f"array-{i:03}"]["target"] = t
        return it.call(fn, [name, dag, nodes], {})

    def ensures(self, c, a, k, res):
        conds = [c.And(t.ndim != 0, t.nchunks_initialized == t.nchunks) for t in c.targets]
        yield "second-verdict-follows-the-second-state", c.And(*conds) if res else c.Not(c.And(*conds))

    def replay(self, cfg, model, ob):
        n = len(cfg["outs"])
        return f"""
import types
import networkx as nx
from cubed.core.plan import already_computed
dag = nx.MultiDiGraph()
nodes = {{"op-001": dict(name="op-001", type="op", pipeline=object())}}
dag.add_node("op-001")
for i in range({n}):
    an = f"array-{{i:03}}"
    nodes[an] = dict(name=an, type="array", target=types.SimpleNamespace(ndim=1, nchunks=2, nchunks_initialized=2))
    dag.add_node(an); dag.add_edge("op-001", an)
first = already_computed("op-001", dag, nodes)
for i in range({n}):
    nodes[f"array-{{i:03}}"]["target"] = types.SimpleNamespace(ndim=1, nchunks=2, nchunks_initialized=0)  # re-targeted: empty
second = already_computed("op-001", dag, nodes)
reproduced = bool(second)
detail = f"first verdict {{first}} (all chunks present), second verdict {{second}} after the arrays were given empty targets"
"""

    def canaries(self, c, a, k, res):
        return ()


@register
class SkipNode(FuncSpec):
    """skip_node(name, dag, nodes): True iff the node has no pipeline or is marked computed."""

    target = "cubed.runtime.pipeline:skip_node"
    props = ("C07", "C09")

    def configs(self, tier):
        return [dict(pipeline=p, computed=cm) for p in (False, True) for cm in ("absent", "sym")]

    def setup(self, c):
        d = {}
        if c.cfg["pipeline"]:
            d["pipeline"] = Opaque("pipeline")
        if c.cfg["computed"] == "sym":
            d["computed"] = c.bool("computed")
        c.d = d
        return ("n", nx.MultiDiGraph(), {"n": d}), {}

    def ensures(self, c, a, k, res):
        if not c.cfg["pipeline"]:
            yield "no-pipeline-skipped", res is True
        elif c.cfg["computed"] == "absent":
            yield "uncomputed-visited", res is False
        else:
            yield "skipped-iff-computed", res == c.d["computed"]


@register
class CreateZarrArray(FuncSpec):
    """create_zarr_array(lazy_zarr_array): exactly one call lazy_zarr_array.create(mode="a") — open-or-create,
    never truncate."""

    target = f"{PLAN}:create_zarr_array"
    props = ("C06", "C09")

    def setup(self, c):
        c.rec = Recorder("lazy-array")
        return (c.rec,), dict(config=None)

    def ensures(self, c, a, k, res):
        eff = [e for e in c.ctx.effects if e[0] == "lazy-array"]
        yield "one-create-call", [e[1] for e in eff] == ["create"]
        yield "mode-is-open-or-create", bool(eff) and eff[0][3].get("mode", (eff[0][2] or [None])[0] if eff[0][2] else None) == "a"


@register
class LazyZarrArrayModes(FuncSpec):
    """LazyZarrArray.create(mode) forwards its mode (default 'w-': fail if it exists) and LazyZarrArray.open() opens with
    'r+' (fail if it does not exist): neither can truncate an existing array."""

    target = "cubed.storage.zarr:LazyZarrArray.create"
    props = ("C06", "C09", "C16")

    def configs(self, tier):
        return [dict(m="default"), dict(m="a"), dict(m="open")]

    def install(self, c):
        def osa(it, fn, a, k):
            it.ctx.effect("open_storage_array", a, k)
            return Opaque("zarr-array")

        c.interp.world.summaries["cubed.storage.store:open_storage_array"] = osa

    def setup(self, c):
        L = c.interp.world.lookup("cubed.storage.zarr:LazyZarrArray")
        obj = IObj(L, dict(store=Opaque("store"), shape=(4,), dtype=Opaque("dt"), chunks=(2,), path="p", kwargs={}))
        c.obj = obj
        if c.cfg["m"] == "a":
            return (obj,), dict(mode="a")
        return (obj,), {}

    def call(self, c, args, kwargs):
        if c.cfg["m"] == "open":
            fn = c.interp.world.lookup("cubed.storage.zarr:LazyZarrArray.open")
            return c.interp.call(fn, list(args), {})
        return super().call(c, args, kwargs)

    def ensures(self, c, a, k, res):
        eff = [e for e in c.ctx.effects if e[0] == "open_storage_array"]
        yield "one-open", len(eff) == 1
        want = {"default": "w-", "a": "a", "open": "r+"}[c.cfg["m"]]
        yield "mode", bool(eff) and eff[0][2].get("mode") == want
        yield "metadata-forwarded", bool(eff) and eff[0][2].get("shape") == (4,) and eff[0][2].get("chunks") == (2,) and eff[0][2].get("path") == "p"


class ZarrModule:
    """Stand-in for the zarr module: records calls; create_array raises ContainsArrayError when the array exists."""

    def __init__(self, c, exists):
        self.c, self.exists = c, exists
        self.errors = ExternalStub("zarr.errors", c.interp.world)

    def open_array(self, **k):
        self.c.ctx.effect("zarr", "open_array", k)
        return Opaque("existing-array")

    def create_array(self, **k):
        self.c.ctx.effect("zarr", "create_array", k)
        if self.exists:
            raise PyExc(ExternalStub("zarr.errors.ContainsArrayError", self.c.interp.world), ("exists",))
        return Opaque("new-array")

    def open_group(self, **k):
        self.c.ctx.effect("zarr", "open_group", k)
        return GroupStub(self)


class GroupStub:
    """zarr.Group of a structured (multi-field) array: create_array refuses an existing field array unless
    overwrite=True (which deletes it first)"""

    def __init__(self, z):
        self.z = z

    def create_array(self, name, **k):
        self.z.c.ctx.effect("zarr", "group.create_array", dict(k, name=name))
        if self.z.exists and not k.get("overwrite", False):
            raise PyExc(ExternalStub("zarr.errors.ContainsArrayError", self.z.c.interp.world), ("exists",))
        return Opaque("new-field-array" if not self.z.exists else "wiped-field-array")

    def _pyvc_getitem(self, interp, name):
        self.z.c.ctx.effect("zarr", "group.getitem", dict(name=name))
        return Opaque("existing-field-array")

    def __getitem__(self, name):
        return self._pyvc_getitem(None, name)


@register
class OpenZarrV3Array(FuncSpec):
    """open_zarr_v3_array(store, mode, shape, dtype, chunks, path) for plain dtypes:
    mode 'r'/'r+' only opens; otherwise it tries to create *without overwrite*, and for mode 'a' an existing array is
    opened as it is (its chunks are never wiped); other modes re-raise ContainsArrayError."""

    target = "cubed.storage.stores.zarr_python_v3:open_zarr_v3_array"
    props = ("C06", "C09")

    def configs(self, tier):
        return [dict(mode=m, exists=e, structured=s_) for m in ("r", "r+", "a", "w-") for e in (False, True) for s_ in (False, True)]

    def install(self, c):
        z = ZarrModule(c, c.cfg["exists"])
        c.z = z
        mod = c.interp.world.module("cubed.storage.stores.zarr_python_v3")
        mod.globals["zarr"] = z
        mod.globals["obstore"] = None

        class FieldArrays(dict):
            """stands in for ZarrV3ArrayGroup (a dict subclass holding the field arrays; not interpreted)"""

            def __init__(self, shape=None, dtype=None, chunks=None):
                dict.__init__(self)
                self.shape, self.dtype, self.chunks = shape, dtype, chunks

        mod.globals["ZarrV3ArrayGroup"] = FieldArrays

    def setup(self, c):
        if c.cfg.get("structured"):
            # a structured dtype (mean/var intermediates): one Zarr array per field inside a group
            dt = Opaque("struct", fields={"n": (Opaque("int64"), 0), "total": (Opaque("float64"), 8)})
        else:
            dt = Opaque("float64", fields=None)
        return ("/tmp/some/store.zarr", c.cfg["mode"]), dict(shape=(4,), dtype=dt, chunks=(2,), path="p")

    def ensures(self, c, a, k, res):
        eff = [(e[1], e[2]) for e in c.ctx.effects if e[0] == "zarr"]
        names = [e[0] for e in eff]
        m, ex = c.cfg["mode"], c.cfg["exists"]
        if c.cfg.get("structured"):
            fields = ["n", "total"]
            yield "group-opened-in-the-requested-mode", names[:1] == ["open_group"] and eff[0][1].get("mode") == m
            per = [(n, kw.get("name")) for n, kw in eff[1:]]
            if m in ("r", "r+"):
                yield "read-modes-only-open-the-fields", per == [("group.getitem", f) for f in fields]
            elif ex:
                want = []
                for f in fields:
                    want += [("group.create_array", f), ("group.getitem", f)]
                yield "append-opens-every-existing-field-after-create-refused", m == "a" and per == want
                yield "existing-field-arrays-returned", all(res[f]._label == "existing-field-array" for f in fields)
            else:
                yield "creates-every-field-when-absent", per == [("group.create_array", f) for f in fields]
            for n, kw in eff:
                yield f"never-overwrites[{n}:{kw.get('name', '')}]", not kw.get("overwrite", False) and kw.get("mode") not in ("w",)
            return
        if m in ("r", "r+"):
            yield "read-modes-only-open", names == ["open_array"]
        elif ex:
            yield "append-opens-existing-after-create-refused", m == "a" and names == ["create_array", "open_array"]
            yield "existing-array-returned", res is not None and res._label == "existing-array"
        else:
            yield "creates-when-absent", names == ["create_array"]
        for n, kw in eff:
            yield f"never-overwrites[{n}]", not kw.get("overwrite", False) and kw.get("mode") not in ("w",)

    def raises(self, c, a, k, e):
        if isinstance(e.etype, ExternalStub) and e.etype._qual.endswith("ContainsArrayError"):
            return c.cfg["exists"] and c.cfg["mode"] not in ("a", "r", "r+")
        return None

    def replay(self, cfg, model, ob):
        """native: create the array, write to it, open it again in the configuration's mode — the data must survive"""
        if not cfg.get("exists") or cfg.get("mode") not in ("a", "r", "r+"):
            return None
        return f"""
import tempfile, shutil
import numpy as np
from cubed.storage.stores.zarr_python_v3 import open_zarr_v3_array
d = tempfile.mkdtemp(prefix="pyvc-replay-")
try:
    dt = np.dtype([("n", "i8"), ("total", "f8")]) if {bool(cfg.get("structured"))!r} else np.dtype("f8")
    a = open_zarr_v3_array(d + "/s.zarr", "a", shape=(4,), dtype=dt, chunks=(2,), path="p")
    if dt.fields:
        for f in dt.fields:
            a[f][:] = np.ones(4, dtype=dt.fields[f][0])
    else:
        a[:] = np.ones(4)
    b = open_zarr_v3_array(d + "/s.zarr", {cfg["mode"]!r}, shape=(4,), dtype=dt, chunks=(2,), path="p")
    if dt.fields:
        vals = [np.asarray(b[f][:]) for f in dt.fields]
    else:
        vals = [np.asarray(b[:])]
    lost = [v.tolist() for v in vals if not (v == 1).all()]
    reproduced = bool(lost)
    detail = f"chunks written before the array was opened again (mode {cfg["mode"]!r}) were wiped: {{lost}}" if lost else "data survived re-opening"
finally:
    shutil.rmtree(d, ignore_errors=True)
"""


@register
class ZarrConfigLiteral(FuncSpec):
    """cubed/storage/stores/zarr_python_v3.py sets, at import, array.write_empty_chunks = True (so `all chunks present'
    means `fully computed') and array.rectilinear_chunks = True — checked on the literal passed to zarr.config.set."""

    target = "cubed.storage.stores.zarr_python_v3:<module>"
    name = "cubed.storage.stores.zarr_python_v3:zarr.config.set"
    props = ("C05", "C09")

    def analyze(self, cfg, tier):
        tree, _ = parse_module(module_path("cubed.storage.stores.zarr_python_v3"))
        found = {}
        for st in tree.body:
            if isinstance(st, ast.Expr) and isinstance(st.value, ast.Call) and ast.unparse(st.value.func) == "zarr.config.set":
                arg = st.value.args[0]
                if isinstance(arg, ast.Dict):
                    for kx, vx in zip(arg.keys, arg.values):
                        if isinstance(kx, ast.Constant) and isinstance(vx, ast.Constant):
                            found[kx.value] = vx.value
        obs = []
        for key in ("array.write_empty_chunks", "array.rectilinear_chunks"):
            ok = found.get(key) is True
            obs.append(dict(name=f"config[{key}]", kind="literal-clause", result="discharged" if ok else "failed", paths=1,
                            backend="pyvc-frame", solver_s=0.0, where=["cubed/storage/stores/zarr_python_v3.py"],
                            failure=None if ok else dict(model={}, where=None, detail=f"found {found}", path=[], cfg=cfg)))
        return dict(spec=self.name, target=self.target, cfg=cfg, paths=1, scoped_paths=0, infeasible=0, undecided=[], assumptions=[],
                    canaries={}, cover=True, wall_s=0.0, solver_s=0.0, errors=[], outcomes={}, obligations=obs)
