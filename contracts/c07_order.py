"""C07 / C13 — executors never start an operation before its producers finished; event grammar of callbacks.
(cubed/core/plan.py _create_lazy_zarr_arrays, cubed/runtime/pipeline.py, cubed/runtime/asyncio.py async_map_dag,
cubed/runtime/executors/local.py SingleThreadedExecutor.execute_dag)"""
from __future__ import annotations

import itertools

import networkx as nx

from pyvc import gb
from pyvc.arrays import ZArr, Dtype
from pyvc.interp import GenList, IObj, Opaque
from pyvc.spec import FuncSpec, register
from pyvc.stubs import Recorder

from .c04_plan import mk_op

PLAN = "cubed.core.plan"

SHAPES = {
    "chain": [("a", "b"), ("b", "c")],
    "diamond": [("a", "b"), ("a", "c"), ("b", "d"), ("c", "d")],
    "independent": [("a", "c"), ("b", "c")],
    "fan-out": [("a", "b"), ("a", "c")],
    "single": [],
    # an op reading the same array on two edges (x*x + y after fusion) plus a deeper input
    "repeated-edge": [("a", "c"), ("a", "c"), ("b", "d"), ("d", "c")],
    "repeated-edge-chain": [("a", "b"), ("a", "b"), ("b", "c"), ("a", "c")],
    # ... where the other input is produced by a longer chain (unequal depths)
    "repeated-edge-deep": [("a", "c"), ("a", "c"), ("b", "d"), ("d", "e"), ("e", "c")],
    "unequal-depth-join": [("a", "d"), ("b", "c"), ("c", "d")],
}


def all_small_dags(nops):
    """every multigraph DAG over `nops` ops (edges from earlier to later letters, multiplicity 0..2)"""
    import itertools

    names = "abcde"[:nops]
    pairs = [(u, v) for i, u in enumerate(names) for v in names[i + 1:]]
    for mult in itertools.product((0, 1, 2), repeat=len(pairs)):
        edges = []
        for (u, v), m in zip(pairs, mult):
            edges.extend([(u, v)] * m)
        yield edges


def build_dag(c, shape, lazy=True, computed=()):
    """ops a,b,c,d with one output array each; edge (u,v): v reads u's output."""
    edges = SHAPES[shape] if isinstance(shape, str) else [tuple(e) for e in shape]
    ops = sorted({x for e in edges for x in e}) or ["a"]
    dag = nx.MultiDiGraph()
    for o in ops:
        op = mk_op(c, o)
        dag.add_node(f"op-{o}", name=f"op-{o}", type="op", primitive_op=op, pipeline=op.pipeline, op_name="blockwise")
        tgt = ZArr(f"z:{o}", (4,), Dtype("dt", 8), (2,), kind="lazy" if lazy else "zarr")
        dag.add_node(f"array-{o}", name=f"array-{o}", type="array", target=tgt)
        dag.add_edge(f"op-{o}", f"array-{o}")
        if o in computed:
            dag.nodes[f"op-{o}"]["computed"] = True
    for u, v in edges:
        dag.add_edge(f"array-{u}", f"op-{v}")
    # an input array produced by a pipeline-less op (creation function)
    dag.add_node("op-src", name="op-src", type="op", op_name="asarray")
    dag.add_node("array-src", name="array-src", type="array", target=Opaque("virtual"))
    dag.add_edge("op-src", "array-src")
    dag.add_edge("array-src", f"op-{ops[0]}")
    return dag, ops


class OrderSpec(FuncSpec):
    def install(self, c):
        S = gb.install(c)
        S["cubed.utils:memory_repr"] = lambda it, fn, a, k: "<mem>"


@register
class CreateLazyZarrArrays(OrderSpec):
    """Plan._create_lazy_zarr_arrays(dag): when the plan has lazy targets a `create-arrays` operation is added whose only
    output node `arrays` becomes a predecessor of *every* node that has a primitive operation — so array creation
    precedes every operation in every topological order; its task list is exactly the lazy targets, each once."""

    target = f"{PLAN}:Plan._create_lazy_zarr_arrays"
    props = ("C07", "C13", "C16")
    bounded = ("DAG shapes enumerated: chain, diamond, independent branches, fan-out, single op",)

    def configs(self, tier):
        return [dict(shape=s, lazy=l) for s in SHAPES for l in (True, False)]

    def setup(self, c):
        dag, ops = build_dag(c, c.cfg["shape"], lazy=c.cfg["lazy"])
        c.before = dag.copy()
        c.ops = ops
        PlanCls = c.interp.world.lookup(f"{PLAN}:Plan")
        return (IObj(PlanCls, dict(dag=dag, array_names=())), dag), {}

    def ensures(self, c, a, k, dag):
        ops = c.ops
        if not c.cfg["lazy"]:
            yield "unchanged-without-lazy-arrays", set(dag.nodes) == set(c.before.nodes) and dag.number_of_edges() == c.before.number_of_edges()
            return
        yield "create-arrays-added", "create-arrays" in dag and "arrays" in dag
        yield "create-arrays-produces-arrays", list(dag.successors("create-arrays")) == ["arrays"] and dag.in_degree("create-arrays") == 0
        for o in ops:
            yield f"runs-before[op-{o}]", dag.has_edge("arrays", f"op-{o}")
        for o in ops:
            anc = nx.ancestors(dag, f"op-{o}")
            yield f"is-an-ancestor-of[op-{o}]", "create-arrays" in anc
        cop = dag.nodes["create-arrays"]["primitive_op"]
        lazies = [c.before.nodes[f"array-{o}"]["target"] for o in ops]
        yield "one-task-per-lazy-array", cop.num_tasks == len(lazies) and list(cop.pipeline.mappable) == lazies
        yield "old-edges-kept", all(dag.has_edge(u, v) for u, v in c.before.edges())
        yield "budget-is-the-plan's", c.And(*[cop.allowed_mem >= dag.nodes[f"op-{o}"]["primitive_op"].allowed_mem for o in ops])


class FakeStream:
    """pipeline_to_stream(...): an asynchronous stream of the operation's task results."""

    def __init__(self, c, name, n):
        self.c, self.name, self.n = c, name, n

    def stream(self):
        return self

    def _pyvc_enter(self, interp):
        self.c.ctx.effect("stream-open", self.name)
        items = []
        for i in range(self.n):
            items.append((f"{self.name}/result{i}", {"name": self.name}))
        return TraceIter(self.c, [self], items)


class TraceIter:
    def __init__(self, c, streams, items):
        self.c, self.streams, self.items = c, streams, items

    def _pyvc_iter(self, interp):
        c = self.c

        def gen():
            for it in self.items:
                c.ctx.effect("task-done", it[1]["name"], it[0])
                yield it
            for s in self.streams:
                c.ctx.effect("stream-exhausted", s.name)

        return gen()


class Merged:
    def __init__(self, c, streams):
        self.c, self.streams = c, streams

    def stream(self):
        return self

    def _pyvc_enter(self, interp):
        items = []
        for s in self.streams:
            self.c.ctx.effect("stream-open", s.name)
        # one admissible interleaving: round robin
        per = [[(f"{s.name}/result{i}", {"name": s.name}) for i in range(s.n)] for s in self.streams]
        for tup in itertools.zip_longest(*per):
            items.extend(x for x in tup if x is not None)
        return TraceIter(self.c, self.streams, items)


@register
class AsyncMapDag(OrderSpec):
    """async_map_dag(create_futures_func, dag, callbacks, compute_arrays_in_parallel)
    ensures (ghost trace of stream/callback events)
      barrier   an operation's stream is opened only after the stream of every operation it depends on is exhausted
                (sequential mode: every earlier operation; parallel mode: every operation of an earlier generation);
      grammar   per operation exactly one operation-start, then its task-end notifications (one per result), then
                exactly one operation-end after its stream is exhausted; computed / pipeline-less nodes are skipped."""

    target = "cubed.runtime.asyncio:async_map_dag"
    props = ("C07", "C13")
    bounded = ("DAG shapes enumerated; 2 results per operation; one admissible interleaving per generation",)

    def configs(self, tier):
        out = []
        for s in SHAPES:
            for par in (False, True):
                out.append(dict(shape=s, parallel=par, computed=[]))
        out.append(dict(shape="chain", parallel=False, computed=["a"]))
        out.append(dict(shape="diamond", parallel=True, computed=["b"]))
        return out

    def install(self, c):
        super().install(c)
        S = c.interp.world.summaries

        def p2s(it, fn, a, k):
            return FakeStream(c, a[1], 2)

        S["cubed.runtime.asyncio:pipeline_to_stream"] = p2s
        c.interp.world.externals["aiostream.stream.merge"] = lambda *streams: Merged(c, list(streams))

    def setup(self, c):
        dag, ops = build_dag(c, c.cfg["shape"], computed=c.cfg["computed"])
        c.dag, c.ops = dag, ops
        c.cb = Recorder("cb")
        return (Opaque("create_futures"), dag), dict(callbacks=[c.cb], compute_arrays_in_parallel=c.cfg["parallel"])

    def ensures(self, c, a, k, res):
        tr = []
        for e in c.ctx.effects:
            if e[0] in ("stream-open", "stream-exhausted"):
                tr.append((e[0], e[1]))
            elif e[0] == "task-done":
                tr.append(("task-done", e[1]))
            elif e[0] == "cb":
                ev = e[2][0]
                nm = ev.attrs.get("name") if isinstance(ev, IObj) else None
                tr.append((e[1], nm))
        live = [f"op-{o}" for o in c.ops if o not in c.cfg["computed"]]
        pos = {}
        for i, ev in enumerate(tr):
            pos.setdefault(ev, []).append(i)
        for n in live:
            yield f"one-start[{n}]", len(pos.get(("on_operation_start", n), [])) == 1
            yield f"one-end[{n}]", len(pos.get(("on_operation_end", n), [])) == 1
            yield f"stream-opened-once[{n}]", len(pos.get(("stream-open", n), [])) == 1
            ok = all(k_ in pos for k_ in [("on_operation_start", n), ("on_operation_end", n), ("stream-open", n), ("stream-exhausted", n)])
            if ok:
                s, e_, so, sx = (pos[("on_operation_start", n)][0], pos[("on_operation_end", n)][0], pos[("stream-open", n)][0], pos[("stream-exhausted", n)][0])
                tasks = pos.get(("on_task_end", n), [])
                yield f"start-before-tasks-before-end[{n}]", s < so < sx < e_ and all(s < t < e_ for t in tasks)
                yield f"one-task-end-per-result[{n}]", len(tasks) == 2
        for o in c.cfg["computed"]:
            n = f"op-{o}"
            yield f"computed-op-skipped[{n}]", ("stream-open", n) not in pos and ("on_operation_start", n) not in pos
        yield "pipeline-less-node-skipped", ("stream-open", "op-src") not in pos
        for u, v in c.dag.edges():
            pass
        # barrier: for every dependency path op-u -> array -> op-v (both live)
        for u in live:
            for v in live:
                if u != v and nx.has_path(c.dag, u, v):
                    if ("stream-exhausted", u) in pos and ("stream-open", v) in pos:
                        yield f"barrier[{u}->{v}]", pos[("stream-exhausted", u)][0] < pos[("stream-open", v)][0]
                    else:
                        yield f"barrier[{u}->{v}]", False


@register
class SingleThreadedExecuteDag(OrderSpec):
    """SingleThreadedExecutor.execute_dag: operations run one at a time in topological order; per operation
    operation-start, then for each task the stage function followed by one task-end notification, then operation-end."""

    target = "cubed.runtime.executors.local:SingleThreadedExecutor.execute_dag"
    props = ("C07", "C13")
    bounded = ("DAG shapes enumerated; 2 tasks per operation",)

    def configs(self, tier):
        return [dict(shape=s, computed=[]) for s in SHAPES] + [dict(shape="chain", computed=["b"])]

    def setup(self, c):
        dag, ops = build_dag(c, c.cfg["shape"], computed=c.cfg["computed"])
        CP = c.interp.world.lookup("cubed.runtime.types:CubedPipeline")
        for o in ops:
            n = f"op-{o}"

            def stage(m, config=None, n=n):
                c.ctx.effect("task-run", n, m)
                return None

            pipe = c.interp.call(CP, [stage, f"{n}-pipe", [0, 1], None], {})
            dag.nodes[n]["pipeline"] = pipe
        c.dag, c.ops = dag, ops
        c.cb = Recorder("cb")
        EX = c.interp.world.lookup("cubed.runtime.executors.local:SingleThreadedExecutor")
        return (IObj(EX, dict(kwargs={})), dag), dict(callbacks=[c.cb], spec=None, compute_id="x")

    def ensures(self, c, a, k, res):
        tr = []
        for e in c.ctx.effects:
            if e[0] == "task-run":
                tr.append(("task-run", e[1]))
            elif e[0] == "cb":
                ev = e[2][0]
                tr.append((e[1], ev.attrs.get("name") if isinstance(ev, IObj) else None))
        live = [f"op-{o}" for o in c.ops if o not in c.cfg["computed"]]
        # grammar: concatenation over ops in some topological order of  start run end run end ... op-end
        i = 0
        order = []
        ok = True
        while i < len(tr):
            if tr[i][0] != "on_operation_start":
                ok = False
                break
            n = tr[i][1]
            order.append(n)
            seg = [("on_operation_start", n)] + [("task-run", n), ("on_task_end", n)] * 2 + [("on_operation_end", n)]
            if tr[i:i + len(seg)] != seg:
                ok = False
                break
            i += len(seg)
        yield "event-grammar", ok
        yield "each-live-op-exactly-once", sorted(order) == sorted(live)
        for u in live:
            for v in live:
                if u != v and nx.has_path(c.dag, u, v) and u in order and v in order:
                    yield f"barrier[{u}->{v}]", order.index(u) < order.index(v)


@register
class VisitNodeGenerations(OrderSpec):
    """visit_node_generations(dag) / visit_nodes(dag): every non-skipped op node is yielded exactly once; a node is
    yielded only after every op it depends on (through any number of parallel edges) has been yielded in an *earlier*
    generation (resp. earlier position); skipped nodes (no pipeline, or computed) are never yielded."""

    target = "cubed.runtime.pipeline:visit_node_generations"
    props = ("C07", "C09")
    bounded = ("DAG shapes: the named shapes plus every multigraph DAG over 3 (quick) / 4 (thorough) operations with edge "
               "multiplicity <= 2; which ops are already computed enumerated",)

    def configs(self, tier):
        out = []
        for s_ in SHAPES:
            out.append(dict(shape=s_, computed=[], fn="generations"))
            out.append(dict(shape=s_, computed=[], fn="nodes"))
        out.append(dict(shape="diamond", computed=["b"], fn="generations"))
        out.append(dict(shape="repeated-edge", computed=["d"], fn="generations"))
        # exhaustive: every multigraph DAG over 3 (quick) / 4 (thorough) operations
        for edges in all_small_dags(3 if tier == "quick" else 4):
            if edges:
                out.append(dict(shape=[list(e) for e in edges], computed=[], fn="generations"))
        return out

    def setup(self, c):
        dag, ops = build_dag(c, c.cfg["shape"], computed=c.cfg["computed"])
        c.dag, c.ops = dag, ops
        return (dag,), {}

    def replay(self, cfg, model, ob):
        return ("import sys\nsys.path.insert(0, '/verif')\nfrom pyvc.replay_plan import run_visit_generations\n"
                f"reproduced, detail = run_visit_generations({cfg['shape']!r}, {list(cfg['computed'])!r}, {cfg['fn']!r})\n")

    def call(self, c, args, kwargs):
        if c.cfg["fn"] == "nodes":
            fn = c.interp.world.lookup("cubed.runtime.pipeline:visit_nodes")
            return [[x] for x in c.interp.call(fn, list(args), {})]
        return list(super().call(c, args, kwargs))

    def ensures(self, c, a, k, gens):
        live = [f"op-{o}" for o in c.ops if o not in c.cfg["computed"]]
        pos = {}
        flat = []
        for gi, g in enumerate(gens):
            for name, node in g:
                flat.append(name)
                pos.setdefault(name, gi)
                yield f"yields-the-node's-own-attributes[{name}]", node is c.dag.nodes[name] or node == dict(c.dag.nodes[name])
        yield "each-live-op-exactly-once", sorted(flat) == sorted(live)
        yield "no-empty-generation", all(len(g) > 0 for g in gens)
        for u in live:
            for v in live:
                if u != v and nx.has_path(c.dag, u, v) and u in pos and v in pos:
                    yield f"producer-in-earlier-generation[{u}->{v}]", pos[u] < pos[v]


@register
class PlanTotals(OrderSpec):
    """FinalizedPlan.__init__/_calculate_stats: the plan's advertised totals are the sums over its operations —
    num_tasks == sum of the operations' num_tasks (C13: the plan's total is their sum), num_primitive_ops == number of
    operations with a primitive op, max_projected_mem == the maximum of their projected memory, bytes/chunks written
    == sums over the materialised non-input arrays; array roles partition the array nodes."""

    target = f"{PLAN}:FinalizedPlan.__init__"
    name = f"{PLAN}:FinalizedPlan[totals]"
    props = ("C13", "C04")
    bounded = ("DAG shapes enumerated",)

    def configs(self, tier):
        return [dict(shape=s) for s in ("single", "chain", "diamond", "independent", "fan-out", "repeated-edge")]

    def setup(self, c):
        dag, ops = build_dag(c, c.cfg["shape"], lazy=False)
        for o in ops:
            t = dag.nodes[f"array-{o}"]["target"]
            t.__dict__["nbytes"] = c.int(f"{o}_nbytes", lo=0)
            t.__dict__["nchunks"] = c.int(f"{o}_nchunks", lo=1)
        c.dag, c.ops = dag, ops
        FP = c.interp.world.lookup(f"{PLAN}:FinalizedPlan")
        c.FP = FP
        want = (f"array-{ops[-1]}",)
        c.want = want
        return (dag, want, True), {}

    def call(self, c, args, kwargs):
        return c.interp.call(c.FP, list(args), dict(kwargs))

    def replay(self, cfg, model, ob):
        return ("import sys\nsys.path.insert(0, '/verif')\nfrom pyvc.replay_plan import run_plan_totals\n"
                f"reproduced, detail = run_plan_totals({cfg['shape']!r}, {dict(model)!r})\n")

    def ensures(self, c, a, k, fp):
        dag, ops = c.dag, c.ops
        pos = [dag.nodes[f"op-{o}"]["primitive_op"] for o in ops]
        tot = 0
        for p in pos:
            tot = tot + p.num_tasks
        yield "num_tasks-is-the-sum-over-operations", fp.num_tasks == tot
        yield "num_primitive_ops", fp.num_primitive_ops == len(pos)
        mx = 0
        for p in pos:
            mx = c.max(mx, p.projected_mem)
        yield "max_projected_mem-is-the-maximum", fp.max_projected_mem == mx
        wb = 0
        wc = 0
        for o in ops:
            t = dag.nodes[f"array-{o}"]["target"]
            wb = wb + t.nbytes
            wc = wc + t.nchunks
        yield "bytes-written-is-the-sum-over-materialised-arrays", fp.total_nbytes_written == wb
        yield "chunks-written-is-the-sum-over-materialised-arrays", fp._total_nchunks_written == wc
        arrays = sorted(n for n, d in dag.nodes(data=True) if d.get("type") == "array")
        roles = sorted(list(fp.input_array_names) + list(fp.intermediate_array_names) + [n for n in c.want])
        yield "array-roles-partition-the-arrays", roles == arrays
