"""C11 / C10 / C05 — store / to_zarr (cubed/core/ops.py store, _store_array, to_zarr)."""
from __future__ import annotations

from pyvc import gb
from pyvc.arrays import Dtype, ZArr, sym_array
from pyvc.interp import IObj, Opaque
from pyvc.spec import FuncSpec, register
from pyvc.sym import PyExc, tz

OPS = "cubed.core.ops"


@register
class StorePairing(FuncSpec):
    """store(sources, targets, regions, compute): the i-th source is stored into the i-th target with the i-th region
    (a single tuple / None region applies to every pair); a count mismatch or a non-array source raises ValueError
    before any pair is processed; with compute=True exactly the stored arrays are computed, once, together."""

    target = f"{OPS}:store"
    props = ("C11",)

    def configs(self, tier):
        out = []
        for ns in (1, 2, 3):
            for nt in (ns, ns + 1):
                for reg in ("none", "tuple", "list", "short-list"):
                    for comp in (True, False):
                        out.append(dict(ns=ns, nt=nt, reg=reg, compute=comp))
        out.append(dict(ns=1, nt=1, reg="none", compute=True, single=True))
        out.append(dict(ns=2, nt=2, reg="none", compute=True, bad_source=True))
        return out if tier != "quick" else out[::3] + out[-2:]

    def install(self, c):
        gb.install(c)
        S = c.interp.world.summaries

        def store_array(it, fn, a, k):
            it.ctx.effect("_store_array", a[0], a[1], k.get("region"))
            return Opaque("stored", source=a[0], target=a[1], region=k.get("region"))

        def compute_arrays(it, fn, a, k):
            it.ctx.effect("compute", tuple(a), dict(k))
            return None

        S[f"{OPS}:_store_array"] = store_array
        S["cubed.core.array:compute"] = compute_arrays

    def setup(self, c):
        cf = c.cfg
        srcs = [sym_array(c, f"s{i}", 1) for i in range(cf["ns"])]
        if cf.get("bad_source"):
            srcs[1] = 42
        tgts = [Opaque(f"target{i}") for i in range(cf["nt"])]
        r1, r2 = (slice(0, 2),), (slice(2, 4),)
        regs = {"none": None, "tuple": r1, "list": [r1, r2, r1][: cf["ns"]], "short-list": [r1, r2, r1][: cf["ns"] - 1]}[cf["reg"]]
        c.v = (srcs, tgts, regs)
        if cf.get("single"):
            return (srcs[0], tgts[0]), dict(regions=regs, compute=cf["compute"])
        return (srcs, tgts), dict(regions=regs, compute=cf["compute"])

    def _expect_error(self, c):
        cf = c.cfg
        return cf.get("bad_source") or cf["ns"] != cf["nt"] or (cf["reg"] == "short-list")

    def ensures(self, c, a, k, res):
        cf = c.cfg
        srcs, tgts, regs = c.v
        yield "accepted-only-when-counts-agree", not self._expect_error(c)
        calls = [e for e in c.ctx.effects if e[0] == "_store_array"]
        yield "one-_store_array-per-pair", len(calls) == cf["ns"]
        for i, e in enumerate(calls):
            want_reg = regs[i] if isinstance(regs, list) else regs
            yield f"pair[{i}]", e[1] is srcs[i] and e[2] is tgts[i] and e[3] == want_reg
        comps = [e for e in c.ctx.effects if e[0] == "compute"]
        if cf["compute"]:
            yield "computed-once-together", len(comps) == 1 and len(comps[0][1]) == cf["ns"] and res is None
            if comps:
                yield "computes-exactly-the-stored-arrays", all(x.source is srcs[i] for i, x in enumerate(comps[0][1]))
                yield "no-in-memory-copy", comps[0][2].get("_return_in_memory_array") is False
        else:
            yield "lazy-form-computes-nothing", comps == []
            yield "returns-one-array-per-pair", isinstance(res, tuple) and len(res) == cf["ns"]

    def raises(self, c, a, k, e):
        if e.etype is ValueError and self._expect_error(c):
            c.ctx.oblige("rejects-before-processing-any-pair", [x for x in c.ctx.effects if x[0] in ("_store_array", "compute")] == [],
                         assume_after=False)
            return True
        return None


def target_zarr(c, label, nd, like=None):
    shape = tuple(c.int(f"{label}_n{i}", lo=1) for i in range(nd)) if like is None else tuple(like)
    chunks = tuple(c.int(f"{label}_c{i}", lo=1) for i in range(nd))
    for n, ch in zip(shape, chunks):
        c.assume(ch <= n)
    z = ZArr(f"z:{label}", shape, Dtype(f"{label}.dt", 8), chunks, kind="zarr")
    z.__dict__["shards"] = None
    return z


@register
class StoreArrayFull(FuncSpec):
    """_store_array(source, target, region=None) for a *computed* source (the source's own array is materialised):
    an identity blockwise copy whose tasks write the target — discharged through the universal contract, so
      GB.meta   the target has the source's shape and the block grid the tasks write is the declared one,
      GB.align  every task region is a union of whole storage chunks of the *existing* target
    are obligations: a target with another shape or chunking must be rejected (or rechunked to) before anything runs."""

    target = f"{OPS}:_store_array"
    name = f"{OPS}:_store_array[computed-source,no-region]"
    props = ("C11", "C05", "C12", "C17")

    def configs(self, tier):
        return [dict(ndim=1, tgt="path"), dict(ndim=1, tgt="zarr"), dict(ndim=2, tgt="zarr")] if tier == "quick" else \
            [dict(ndim=n, tgt=t) for n in (1, 2, 3) for t in ("path", "zarr")]

    def install(self, c):
        gb.install(c)

    def setup(self, c):
        nd = c.cfg["ndim"]
        x = sym_array(c, "x", nd, kind="zarr")  # already materialised: not a LazyZarrArray
        c.expect_origin = lambda j, g: ("array-x", tuple(g))
        if c.cfg["tgt"] == "path":
            tgt = "some/path.zarr"
        else:
            tgt = target_zarr(c, "t", nd)
        c.v = (x, tgt)
        return (x, tgt), {}

    def ensures(self, c, a, k, res):
        x, tgt = c.v
        yield "result-shape", c.eq_tuple(res.shape, x.shape)
        z = res._zarray
        if c.cfg["tgt"] == "zarr":
            yield "result-is-bound-to-the-target", z is tgt
        ops = [r.op for r in getattr(c, "gb_calls", [])]
        # either one identity copy into the target, or (misaligned target) the rechunk that now writes the target
        yield "at-most-one-copy-op", len(ops) <= 1
        if ops:
            yield "store-op-is-not-fused-away", ops[0].fusable_with_successors is False
        else:
            prod = [d["primitive_op"] for n, d in res._plan.dag.nodes(data=True) if "primitive_op" in d]
            yield "rechunk-writes-the-target", len(prod) == 1 and prod[0].target_array is tgt and prod[0].fusable_with_successors is False

    def raises(self, c, a, k, e):
        if e.etype is ValueError and c.cfg["tgt"] == "zarr":
            # an explicit refusal is the accepted way to decline a target that cannot be written safely
            x, tgt = c.v
            return c.Or(c.Not(c.eq_tuple(x.shape, tgt.shape)), *[c.And((xc % tc) != 0, xc < n) for xc, tc, n in zip(x.chunksize, tgt.chunks, tgt.shape)])
        return None

    def replay(self, cfg, model, ob):
        nd = cfg["ndim"]
        g = lambda n, d=1: model.get(n, d)
        shape = tuple(g(f"x_n{i}") for i in range(nd))
        xch = tuple(g(f"x_c{i}") for i in range(nd))
        tsh = tuple(g(f"t_n{i}", shape[i]) for i in range(nd))
        tch = tuple(min(g(f"t_c{i}"), tsh[i]) for i in range(nd))
        return f"""
import tempfile, numpy as np, zarr, cubed, cubed.array_api as xp
from cubed.runtime.executors.local import ThreadsExecutor
d = tempfile.mkdtemp(prefix="pyvc-replay-")
spec = cubed.Spec(work_dir=d, allowed_mem=2_000_000_000)
a = np.arange(1, 1 + int(np.prod({shape!r})), dtype="int64").reshape({shape!r})
x = xp.asarray(a, chunks={xch!r}, spec=spec)
x = xp.negative(xp.negative(x))          # a computed (non-virtual) source
x.compute()
t = zarr.create_array(store=d + "/target.zarr", shape={tsh!r}, dtype="int64", chunks={tch!r}, fill_value=-7)
try:
    cubed.store(x, t, executor=ThreadsExecutor())
    got = t[...]
    if got.shape != a.shape:
        reproduced, detail = True, f"source shape {{a.shape}} silently stored into target of shape {{got.shape}}"
    else:
        reproduced, detail = (not np.array_equal(got, a)), f"target holds {{got.tolist()!r:.200}} expected {{a.tolist()!r:.200}} (source chunks {xch}, target chunks {tch})"
except (ValueError, TypeError, NotImplementedError, IndexError) as e:
    import traceback
    tb = traceback.format_exc()
    if "execute_dag" in tb or "map_unordered" in tb or "apply_blockwise" in tb:
        reproduced, detail = True, f"failed after execution started: {{type(e).__name__}}: {{e}}"
    else:
        reproduced, detail = False, f"declined up front: {{type(e).__name__}}: {{e}}"
except Exception as e:
    reproduced, detail = True, f"{{type(e).__name__}}: {{e}}"
"""


@register
class StoreArrayLazySource(FuncSpec):
    """_store_array(source, target, region=None) for a source that has not been computed:
    frame clause (C10): building the store must not assign to anything reachable from an existing array — the source
    array object, the nodes of its plan, its producing PrimitiveOperation or that operation's write proxies — since
    other lazy arrays built earlier share those objects."""

    target = f"{OPS}:_store_array"
    name = f"{OPS}:_store_array[lazy-source,no-region]"
    props = ("C10", "C11")

    def configs(self, tier):
        return [dict(ndim=1)]

    def install(self, c):
        gb.install(c)

    def setup(self, c):
        import networkx as nx

        from .c04_plan import mk_op

        x = sym_array(c, "x", c.cfg["ndim"], kind="lazy")
        op = mk_op(c, "producer")
        PX = c.interp.world.lookup("cubed.primitive.types:CubedArrayProxy")
        op.pipeline.config.writes_map = {x.name: c.interp.call(PX, [x._zarray, x.chunksize], {})}
        op.target_array = x._zarray
        dag = nx.MultiDiGraph()
        dag.add_node("op-001", name="op-001", type="op", primitive_op=op, pipeline=op.pipeline)
        dag.add_node(x.name, name=x.name, type="array", target=x._zarray)
        dag.add_edge("op-001", x.name)
        PlanCls = c.interp.world.lookup("cubed.core.plan:Plan")
        x.attrs["_plan"] = IObj(PlanCls, dict(dag=dag, array_names=(x.name,)))
        c.v = dict(x=x, op=op, dag=dag, old_target=x._zarray, node=dag.nodes[x.name])
        c.eff0 = len(c.ctx.effects)
        return (x, "some/path.zarr"), {}

    def ensures(self, c, a, k, res):
        v = c.v
        window = c.ctx.effects[c.eff0:]
        fresh = {e[1] for e in window if e[0] == "alloc"}
        shared = [e for e in window if e[0] == "setattr" and e[1] not in fresh]
        yield "assigns-nothing-shared:no-attribute-of-an-existing-object", shared == []
        yield "assigns-nothing-shared:source-array-still-bound-to-its-own-target", v["x"]._zarray is v["old_target"]
        yield "assigns-nothing-shared:plan-node-keeps-its-target", v["node"]["target"] is v["old_target"]
        yield "assigns-nothing-shared:producer-keeps-its-target", v["op"].target_array is v["old_target"]
        yield "assigns-nothing-shared:producer-write-proxy-keeps-its-target", v["op"].pipeline.config.writes_map[v["x"].name].array is v["old_target"]

    def replay(self, cfg, model, ob):
        return """
import tempfile, numpy as np, cubed, cubed.array_api as xp
d = tempfile.mkdtemp(prefix="pyvc-replay-")
spec = cubed.Spec(work_dir=d, allowed_mem=2_000_000_000)
a = np.arange(6)
x = xp.negative(xp.asarray(a, chunks=2, spec=spec))
y = xp.add(x, x)                      # built before the store, shares x's plan objects
cubed.to_zarr(x, d + "/out.zarr")
got = y.compute()
reproduced, detail = (not np.array_equal(got, -2 * a)), f"y = x + x computed after to_zarr(x): {got.tolist()} expected {(-2 * a).tolist()}"
"""


@register
class StoreArrayRegion(FuncSpec):
    """_store_array(source, target, region): region store into an existing array.
    requires  nothing beyond the type invariants (any region of slices, any source chunking)
    ensures   a region that is not aligned with the target's chunks, or whose shape differs from the source's, is
              rejected with ValueError before anything is built; otherwise, through the universal contract with the
              explicit task list: the listed blocks are exactly target blocks inside the grid, their number equals the
              advertised num_tasks (GB.tasks), every task reads an in-range source block (GB.keys) whose shape is the
              region of the target block it writes (GB.shape) and whose elements are source[idx - region.start]
              (GB.origin); tasks write whole storage chunks (GB.align)."""

    target = f"{OPS}:_store_array"
    name = f"{OPS}:_store_array[region]"
    props = ("C11", "C13", "C05", "C17")

    def configs(self, tier):
        # the input space is split exhaustively in two:
        #   "rejected": regions that are misaligned with the target chunks or whose shape differs from the source's
        #               (start/stop free) — only the refusal clause is at stake;
        #   "accepted": aligned regions with the source's shape, *parametrised* by block numbers (start = f*tc and
        #               stop = l*tc or the array end; every aligned region has this form), which keeps the arithmetic
        #               free of mod terms.
        out = [dict(ndim=1, dom="rejected"), dict(ndim=1, dom="accepted", end="boundary"), dict(ndim=1, dom="accepted", end="array-end")]
        if tier != "quick":
            out += [dict(ndim=2, dom="rejected"), dict(ndim=2, dom="accepted", end="boundary"), dict(ndim=2, dom="accepted", end="array-end")]
        return out

    def install(self, c):
        gb.install(c)

    def setup(self, c):
        nd = c.cfg["ndim"]
        tgt = target_zarr(c, "t", nd)
        if c.cfg["dom"] == "rejected":
            x = sym_array(c, "x", nd, kind="zarr")
            region = tuple(slice(c.int(f"r{i}_start", lo=0), c.int(f"r{i}_stop", lo=0)) for i in range(nd))
            for sl, n in zip(region, tgt.shape):
                c.assume(sl.start <= sl.stop)
                c.assume(sl.stop <= n)
            ok = c.And(*[c.And(sl.start % cs == 0, c.Or(sl.stop % cs == 0, sl.stop == n), sl.stop - sl.start == xn)
                         for sl, cs, n, xn in zip(region, tgt.chunks, tgt.shape, x.shape)])
            c.assume(c.Not(ok))
        else:
            region = []
            fixed = {}
            for i in range(nd):
                f = c.int(f"r{i}_first_block", lo=0)
                start = f * tgt.chunks[i]
                if c.cfg["end"] == "boundary":
                    l_ = c.int(f"r{i}_end_block", lo=1)
                    stop = l_ * tgt.chunks[i]
                    c.assume(f < l_)
                else:
                    stop = tgt.shape[i]
                c.assume(start < stop)
                c.assume(stop <= tgt.shape[i])
                c.ctx.symvars[f"r{i}_start"] = tz(start)
                c.ctx.symvars[f"r{i}_stop"] = tz(stop)
                region.append(slice(start, stop))
                fixed[i] = stop - start
            region = tuple(region)
            x = sym_array(c, "x", nd, kind="zarr", fixed=fixed)
        c.expect_origin = lambda j, g: ("array-x", tuple(gi - sl.start for gi, sl in zip(g, region)))
        c.v = (x, tgt, region)
        return (x, tgt), dict(region=region)

    def ensures(self, c, a, k, res):
        x, tgt, region = c.v
        yield "accepted-region-has-the-source's-shape", c.And(*[sl.stop - sl.start == n for sl, n in zip(region, x.shape)])
        yield "accepted-region-starts-on-a-target-chunk-boundary", c.And(*[sl.start % cs == 0 for sl, cs in zip(region, tgt.chunks)])
        yield "accepted-region-ends-on-a-boundary-or-the-array-end", c.And(*[c.Or(sl.stop % cs == 0, sl.stop == n) for sl, cs, n in zip(region, tgt.chunks, tgt.shape)])
        yield "result-is-bound-to-the-target", res._zarray is tgt

    def raises(self, c, a, k, e):
        x, tgt, region = c.v
        if e.etype is ValueError:
            bad_align = c.Or(*[c.Or(sl.start % cs != 0, c.And(sl.stop % cs != 0, sl.stop != n)) for sl, cs, n in zip(region, tgt.chunks, tgt.shape)])
            bad_shape = c.Or(*[sl.stop - sl.start != n for sl, n in zip(region, x.shape)])
            return c.Or(bad_align, bad_shape)
        return None

    def replay(self, cfg, model, ob):
        nd = cfg["ndim"]
        g = lambda n, d=1: model.get(n, d)
        ts = tuple(g(f"t_n{i}") for i in range(nd))
        tc = tuple(min(g(f"t_c{i}"), ts[i]) for i in range(nd))
        reg = tuple((g(f"r{i}_start", 0), g(f"r{i}_stop", 0)) for i in range(nd))
        xs = tuple(model.get(f"x_n{i}", max(reg[i][1] - reg[i][0], 1)) for i in range(nd))
        xc = tuple(min(g(f"x_c{i}"), xs[i]) for i in range(nd))
        return f"""
import tempfile, numpy as np, zarr, cubed, cubed.array_api as xp
from cubed.runtime.types import Callback
d = tempfile.mkdtemp(prefix="pyvc-replay-")
spec = cubed.Spec(work_dir=d, allowed_mem=2_000_000_000)
a = np.arange(1, 1 + int(np.prod({xs!r})), dtype="int64").reshape({xs!r})
x = xp.negative(xp.negative(xp.asarray(a, chunks={xc!r}, spec=spec)))
x.compute()
t = zarr.create_array(store=d + "/target.zarr", shape={ts!r}, dtype="int64", chunks={tc!r}, fill_value=-7)
region = tuple(slice(s, e) for s, e in {reg!r})
class Count(Callback):
    def __init__(self): self.n = {{}}
    def on_task_end(self, ev): self.n[ev.name] = self.n.get(ev.name, 0) + 1
cb = Count()
try:
    arr = cubed.store(x, t, regions=region, compute=False)[0]
    fp = arr.plan()
    adv = {{n: dd["primitive_op"].num_tasks for n, dd in fp.dag.nodes(data=True) if "primitive_op" in dd}}
    arr.compute(callbacks=[cb])
    got = t[...]
    want = np.full({ts!r}, -7, dtype="int64"); want[region] = a
    wrong_counts = {{n: (adv[n], cb.n.get(n, 0)) for n in adv if adv[n] != cb.n.get(n, 0)}}
    reproduced = (not np.array_equal(got, want)) or bool(wrong_counts)
    detail = f"target ok={{np.array_equal(got, want)}}; advertised vs run tasks that differ: {{wrong_counts}}"
except ValueError as e:
    import traceback
    tb = traceback.format_exc()
    if "execute_dag" in tb or "apply_blockwise" in tb or "map_unordered" in tb:
        reproduced, detail = True, f"failed after execution started: ValueError: {{e}}"
    else:
        reproduced, detail = False, f"declined up front: {{e}}"
except Exception as e:
    reproduced, detail = True, f"{{type(e).__name__}}: {{e}}"
"""
