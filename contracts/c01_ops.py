"""C01/C12/C17 — structural array operations: each constructor is run on symbolic arrays; its call of
general_blockwise is checked against the universal contract (pyvc.gb) with the real key/block functions."""
from __future__ import annotations

from pyvc import gb
from pyvc.arrays import sym_array
from pyvc.spec import FuncSpec, register
from pyvc.sym import PyExc

MF = "cubed.array_api.manipulation_functions"


def ranks(tier):
    return (1, 2) if tier == "quick" else (1, 2, 3)


class ArrayOpSpec(FuncSpec):
    props = ("C01", "C12", "C17")
    explicit = (ValueError, TypeError, NotImplementedError, IndexError)

    def install(self, c):
        gb.install(c)

    def raises(self, c, a, k, e: PyExc):
        # C17: explicit error types at build time are an allowed way to decline; which inputs are declined is
        # pinned by `declines` (condition under which an explicit error is acceptable)
        if isinstance(e.etype, type) and issubclass(e.etype, self.explicit):
            return self.declines(c, a, k, e)
        return None

    def declines(self, c, a, k, e):
        return False


@register
class Repeat(ArrayOpSpec):
    """repeat(x, repeats, axis): result[.., j, ..] == x[.., j // repeats, ..]"""

    target = f"{MF}:repeat"

    def configs(self, tier):
        return [dict(ndim=nd, axis=ax) for nd in ranks(tier) for ax in range(nd)]

    def setup(self, c):
        nd, ax = c.cfg["ndim"], c.cfg["axis"]
        x = sym_array(c, "x", nd)
        r = c.int("repeats", lo=0)
        c.expect_origin = lambda j, g: ("array-x", tuple(gi // r if i == ax else gi for i, gi in enumerate(g)))
        return (x, r), dict(axis=ax)

    def ensures(self, c, a, k, res):
        x, r = a
        ax = k["axis"]
        yield "shape", c.eq_tuple(res.shape, tuple(n * r if i == ax else n for i, n in enumerate(x.shape)))
        yield "declared-chunks-sum-to-shape", c.And(*[g.total(c.interp) == n for g, n in zip(res.chunks, res.shape)])

    def canaries(self, c, a, k, res):
        x, r = a
        yield "canary:shape-unchanged", c.eq_tuple(res.shape, x.shape)
