"""C01/C12/C17 — structural array operations: each constructor is run on symbolic arrays; its call of
general_blockwise is checked against the universal contract (pyvc.gb) with the real key/block functions."""
from __future__ import annotations

from pyvc import gb
from pyvc.arrays import sym_array
from pyvc.spec import FuncSpec, register
from pyvc.sym import PyExc

MF = "cubed.array_api.manipulation_functions"


def ranks(tier):
    return (1, 2) if tier == "quick" else (1, 2, 3)


class ArrayOpSpec(FuncSpec):
    props = ("C01", "C12", "C17", "C16", "C03")
    explicit = (ValueError, TypeError, NotImplementedError, IndexError)
    # clauses contributed to properties other than the contract's own: the effect clause to C16, the live-memory
    # clauses of the interpreted block function to C03
    prop_obligations = {"C16": ("builds-without-executing",), "C03": (".mem:",)}

    def install(self, c):
        gb.install(c)
        c.meter_memory = True  # GB.mem: live array data of the block function fits projected_mem - reserved_mem

    def raises(self, c, a, k, e: PyExc):
        # C17: explicit error types at build time are an allowed way to decline; which inputs are declined is
        # pinned by `declines` (condition under which an explicit error is acceptable)
        if isinstance(e.etype, type) and issubclass(e.etype, self.explicit):
            return self.declines(c, a, k, e)
        return None

    def declines(self, c, a, k, e):
        return False

    def always(self, c, a, k, outcome):
        # C16: composing an operation runs nothing — no path through the builder reaches an execution entry point
        # (compute / Array.__int__ / __index__ / __bool__ / __float__ / __array__), whether it returns or raises
        yield "builds-without-executing", not [e for e in c.ctx.effects if e[0] == "execute"]

    def replay_case(self, cfg, model):
        """-> (arrays: {label: (ndim, fixed)}, build_src, reference_src) or None"""
        return None

    def replay(self, cfg, model, ob):
        rc = self.replay_case(cfg, model)
        if rc is None:
            return None
        arrays, build, ref = rc
        lines = ["import sys", "sys.path.insert(0, '/verif')", "from pyvc.replay_lib import model_array, run_array_case",
                 f"model = {dict(model)!r}", "arrays = {}"]
        for i, (label, (nd, fixed)) in enumerate(arrays.items()):
            lines.append(f"arrays[{label!r}] = model_array(model, {label!r}, {nd}, {fixed!r}, offset={1000 * i})")
        lines.append(f"build = {build}")
        lines.append(f"reference = {ref}")
        lines.append("reproduced, detail = run_array_case(build, reference, arrays)")
        return "\n".join(lines) + "\n"


@register
class Repeat(ArrayOpSpec):
    """repeat(x, repeats, axis): result[.., j, ..] == x[.., j // repeats, ..]"""
    quick_props = ('C01', 'C17', 'C12', 'C16', 'C03')

    target = f"{MF}:repeat"

    def configs(self, tier):
        return [dict(ndim=nd, axis=ax) for nd in ranks(tier) for ax in range(nd)] + [dict(ndim=1, axis=0, repeats_is_array=True)]

    def setup(self, c):
        nd, ax = c.cfg["ndim"], c.cfg["axis"]
        x = sym_array(c, "x", nd)
        if c.cfg.get("repeats_is_array"):
            # the Array API allows an array for `repeats`; cubed may decline it, but must not compute it while building
            r = sym_array(c, "r", 0)
            c.expect_origin = None
            return (x, r), dict(axis=ax)
        r = c.int("repeats", lo=0)
        c.expect_origin = lambda j, g: ("array-x", tuple(gi // r if i == ax else gi for i, gi in enumerate(g)))
        return (x, r), dict(axis=ax)

    def ensures(self, c, a, k, res):
        x, r = a
        ax = k["axis"]
        if c.cfg.get("repeats_is_array"):
            return  # the clause of this configuration is `builds-without-executing` (always)
        yield "shape", c.eq_tuple(res.shape, tuple(n * r if i == ax else n for i, n in enumerate(x.shape)))
        yield "declared-chunks-sum-to-shape", c.And(*[g.total(c.interp) == n for g, n in zip(res.chunks, res.shape)])

    def declines(self, c, a, k, e):
        return bool(c.cfg.get("repeats_is_array")) or super().declines(c, a, k, e)

    def canaries(self, c, a, k, res):
        x, r = a
        if c.cfg.get("repeats_is_array"):
            return
        yield "canary:shape-unchanged", c.eq_tuple(res.shape, x.shape)

    def replay(self, cfg, model, ob):
        if cfg.get("repeats_is_array"):
            return ("import sys\nsys.path.insert(0, '/verif')\nfrom pyvc.replay_lib import run_lazy_case\n"
                    "reproduced, detail = run_lazy_case(lambda xp, cubed, spec: xp.repeat(xp.ones((4,), chunks=2, spec=spec), "
                    "xp.asarray(2, spec=spec)))\n")
        return super().replay(cfg, model, ob)

    def replay_case(self, cfg, model):
        r, ax = model.get("repeats", 0), cfg["axis"]
        return ({"x": (cfg["ndim"], None)}, f"lambda xp, a: xp.repeat(a['x'], {r}, axis={ax})",
                f"lambda np, a: np.repeat(a['x'], {r}, axis={ax})")


@register
class Stack(ArrayOpSpec):
    """stack(arrays, axis): result[.., j, ..] == arrays[j][..]  (NumPy requires equal shapes)"""
    quick_props = ('C01', 'C17')

    target = f"{MF}:stack"

    def configs(self, tier):
        if tier == "quick":  # rank-2 stacks take minutes (unify_chunks forks): thorough tier only
            return [dict(ndim=1, axis=ax, k=2) for ax in range(2)]
        return [dict(ndim=nd, axis=ax, k=k) for nd in (1, 2) for ax in range(nd + 1) for k in (1, 2, 3) if nd == 1 or k == 2]

    def setup(self, c):
        nd, ax, k = c.cfg["ndim"], c.cfg["axis"], c.cfg["k"]
        arrs = [sym_array(c, f"a{j}", nd) for j in range(k)]
        for a in arrs[1:]:
            for n0, n1 in zip(arrs[0].shape, a.shape):
                c.assume(n0 == n1)  # NumPy's own precondition
        names = tuple(a.name for a in arrs)

        def exp(j, g):
            nm = c.interp.pick(names, g[ax])
            return (nm, tuple(g[:ax]) + tuple(g[ax + 1:]))

        c.expect_origin = exp
        return (arrs,), dict(axis=ax)

    def ensures(self, c, a, k, res):
        arrs, ax = a[0], k["axis"]
        s0 = arrs[0].shape
        yield "shape", c.eq_tuple(res.shape, s0[:ax] + (len(arrs),) + s0[ax:])

    def replay_case(self, cfg, model):
        nd, ax, k = cfg["ndim"], cfg["axis"], cfg["k"]
        m = dict(model)
        for j in range(1, k):
            for i in range(nd):
                m[f"a{j}_n{i}"] = m.get("a0_n%d" % i, 0)
        model.update(m)
        labels = [f"a{j}" for j in range(k)]
        return ({l: (nd, None) for l in labels}, f"lambda xp, a: xp.stack([a[l] for l in {labels!r}], axis={ax})",
                f"lambda np, a: np.stack([a[l] for l in {labels!r}], axis={ax})")


@register
class Elemwise(ArrayOpSpec):
    """elemwise(f, x, y, dtype=): operands of equal or broadcastable shapes, *chunked independently of each other*:
    result[g] == f(x[g'], y[g'']) with NumPy's broadcasting of the global index; every task receives argument blocks
    of broadcast-compatible shapes (the operands are brought to a common block structure first)."""
    quick_props = ('C01', 'C17', 'C12', 'C03')

    target = "cubed.core.ops:elemwise"

    def configs(self, tier):
        out = [dict(ndim=1, bcast=None)]
        if tier != "quick":
            out += [dict(ndim=2, bcast=None), dict(ndim=2, bcast="y-row"), dict(ndim=2, bcast="y-lower-rank")]
        else:
            out += [dict(ndim=2, bcast="y-lower-rank")]
        return out

    def setup(self, c):
        from .c01_reduce import ElemwiseFn

        nd, bc = c.cfg["ndim"], c.cfg["bcast"]
        x = sym_array(c, "x", nd)
        if bc == "y-lower-rank":
            y = sym_array(c, "y", nd - 1)
            c.assume(y.shape[0] == x.shape[-1])
        elif bc == "y-row":
            y = sym_array(c, "y", nd, fixed={0: 1})
            c.assume(y.shape[1] == x.shape[1])
        else:
            y = sym_array(c, "y", nd)
            for n0, n1 in zip(x.shape, y.shape):
                c.assume(n0 == n1)
        ynd = len(y.shape)

        def exp(j, g):
            gy = tuple(g[nd - ynd:])
            if bc == "y-row":
                gy = (0,) + tuple(gy[1:])
            return (f"f({x.name},{y.name})", tuple(g) + gy)

        c.expect_origin = exp
        return (ElemwiseFn("f"), x, y), dict(dtype=x.dtype)

    def ensures(self, c, a, k, res):
        yield "shape", c.eq_tuple(res.shape, a[1].shape)

    def replay_case(self, cfg, model):
        nd, bc = cfg["ndim"], cfg["bcast"]
        m = dict(model)
        if bc == "y-lower-rank":
            arrays = {"x": (nd, None), "y": (nd - 1, None)}
            m["y_n0"] = m.get(f"x_n{nd - 1}", 0)
        elif bc == "y-row":
            arrays = {"x": (nd, None), "y": (nd, {0: 1})}
            m["y_n1"] = m.get("x_n1", 0)
        else:
            arrays = {"x": (nd, None), "y": (nd, None)}
            for i in range(nd):
                m[f"y_n{i}"] = m.get(f"x_n{i}", 0)
        model.update(m)
        return (arrays, "lambda xp, a: xp.add(a['x'], a['y'])", "lambda np, a: np.add(a['x'], a['y'])")


@register
class UnifyChunks(ArrayOpSpec):
    """unify_chunks(x, ind, y, ind): the returned arrays have, along every shared index, the same chunk structure
    (so corresponding blocks cover the same region), their shapes are unchanged and they hold the same values."""
    quick_props = ('C17', 'C01')

    target = "cubed.core.ops:unify_chunks"

    def configs(self, tier):
        return [dict(ndim=1)] + ([dict(ndim=2)] if tier != "quick" else [])

    def setup(self, c):
        nd = c.cfg["ndim"]
        x, y = sym_array(c, "x", nd), sym_array(c, "y", nd)
        for n0, n1 in zip(x.shape, y.shape):
            c.assume(n0 == n1)
        ind = tuple(range(nd))[::-1]
        c.expect_origin = None
        return (x, ind, y, ind), {}

    def ensures(self, c, a, k, res):
        chunkss, arrays = res
        x, _, y, _ = a
        yield "two-arrays", len(arrays) == 2
        ux, uy = arrays
        yield "shapes-unchanged", c.And(c.eq_tuple(ux.shape, x.shape), c.eq_tuple(uy.shape, y.shape))
        al = getattr(c, "aliases", {})

        def root(n):
            while n in al:
                n = al[n]
            return n

        yield "same-values", root(ux.name) == x.name and root(uy.name) == y.name
        for i in range(len(x.shape)):
            gx, gy = ux.chunks[i], uy.chunks[i]
            # same block structure along the axis: equal number of blocks and equal block size
            yield f"common-block-structure[{i}]", c.And(gx.length() == gy.length(), gx.first(c.interp) == gy.first(c.interp))


@register
class Unstack(ArrayOpSpec):
    quick_props = ('C12',)
    target = f"{MF}:unstack"

    def configs(self, tier):
        return [dict(ndim=nd, axis=ax, n=n) for nd in (2,) + ((3,) if tier != "quick" else ()) for ax in range(nd) for n in (2, 3)]

    def setup(self, c):
        nd, ax, n = c.cfg["ndim"], c.cfg["axis"], c.cfg["n"]
        x = sym_array(c, "x", nd, fixed={ax: n})  # the number of outputs is structural: enumerated
        c.expect_origin = lambda j, g: ("array-x", tuple(g[:ax]) + (j,) + tuple(g[ax:]))
        return (x,), dict(axis=ax)

    def ensures(self, c, a, k, res):
        x, ax = a[0], k["axis"]
        yield "count", len(res) == c.cfg["n"]
        for j, r in enumerate(res):
            yield f"shape[{j}]", c.eq_tuple(r.shape, x.shape[:ax] + x.shape[ax + 1:])

    def replay_case(self, cfg, model):
        ax, n = cfg["axis"], cfg["n"]
        return ({"x": (cfg["ndim"], {ax: n})}, f"lambda xp, a: tuple(xp.unstack(a['x'], axis={ax}))",
                f"lambda np, a: tuple(np.take(a['x'], i, axis={ax}) for i in range({n}))")


@register
class ReshapeChunks(ArrayOpSpec):
    """reshape_chunks(x, shape, chunks) — internal helper; contract for its single-block call site in `reshape`
    (x.npartitions == 1, chunks = one block per axis). The multi-block call site goes through the vendored dask
    `reshape_rechunk` planner, which is outside the modelled subset (not covered)."""
    quick_props = ('C17',)

    target = f"{MF}:reshape_chunks"
    props = ("C12", "C17")
    not_covered = ("reshape of multi-block arrays (vendored dask reshape_rechunk planner)",)

    def configs(self, tier):
        return [dict(nin=1, nout=2), dict(nin=2, nout=1)] + ([dict(nin=2, nout=2), dict(nin=1, nout=1)] if tier != "quick" else [])

    def setup(self, c):
        from pyvc.arrays import ConstGrid

        x = sym_array(c, "x", c.cfg["nin"], single_chunk_axes=range(c.cfg["nin"]))
        nout = c.cfg["nout"]
        shape = c.ints("s", nout, lo=0)
        chunks = tuple((d,) for d in shape)  # as `reshape` passes for npartitions == 1
        return (x, shape, chunks), {}

    def ensures(self, c, a, k, res):
        yield "shape", c.eq_tuple(res.shape, a[1])

    def declines(self, c, a, k, e):
        x, shape, chunks = a
        return c.prod(shape) != c.prod(x.shape)


@register
class ExpandDims(ArrayOpSpec):
    quick_props = ('C12',)
    target = f"{MF}:expand_dims"

    def configs(self, tier):
        return [dict(ndim=nd, axis=ax) for nd in ranks(tier)[:2] for ax in range(nd + 1)]

    def setup(self, c):
        nd, ax = c.cfg["ndim"], c.cfg["axis"]
        x = sym_array(c, "x", nd)
        c.expect_origin = lambda j, g: ("array-x", tuple(g[:ax]) + tuple(g[ax + 1:]))
        return (x,), dict(axis=ax)

    def ensures(self, c, a, k, res):
        x, ax = a[0], k["axis"]
        yield "shape", c.eq_tuple(res.shape, x.shape[:ax] + (1,) + x.shape[ax:])

    def replay_case(self, cfg, model):
        ax = cfg["axis"]
        return ({"x": (cfg["ndim"], None)}, f"lambda xp, a: xp.expand_dims(a['x'], axis={ax})", f"lambda np, a: np.expand_dims(a['x'], {ax})")


@register
class PermuteDims(ArrayOpSpec):
    quick_props = ('C01',)
    target = f"{MF}:permute_dims"

    def configs(self, tier):
        import itertools

        out = []
        for nd in ranks(tier):
            for p in itertools.permutations(range(nd)):
                out.append(dict(ndim=nd, axes=list(p)))
        return out

    def setup(self, c):
        nd, axes = c.cfg["ndim"], tuple(c.cfg["axes"])
        x = sym_array(c, "x", nd)

        def exp(j, g):
            src = [None] * nd
            for i, a_ in enumerate(axes):
                src[a_] = g[i]
            return ("array-x", tuple(src))

        c.expect_origin = exp
        return (x, axes), {}

    def ensures(self, c, a, k, res):
        x, axes = a
        yield "shape", c.eq_tuple(res.shape, tuple(x.shape[i] for i in axes))

    def replay_case(self, cfg, model):
        axes = tuple(cfg["axes"])
        return ({"x": (cfg["ndim"], None)}, f"lambda xp, a: xp.permute_dims(a['x'], {axes!r})", f"lambda np, a: np.transpose(a['x'], {axes!r})")
