"""C12 / C17 — tall-and-skinny QR (cubed/array_api/linalg.py): the first step declares Q1 with the shape and chunks of
its input and R1 with one (n, n) block per row block; NumPy's reduced QR of an (m_i, n) block returns Q (m_i, k) and
R (k, n) with k = min(m_i, n) — so the declaration is truthful only if every row block has at least n rows."""
from __future__ import annotations

from pyvc.arrays import Dtype, sym_array
from pyvc.spec import register

from .c01_ops import ArrayOpSpec

LA = "cubed.array_api.linalg"


def short_row_block(c, x):
    n0, c0, n1 = x.shape[0], x.chunksize[0], x.shape[1]
    last = n0 - (x.numblocks[0] - 1) * c0
    return c.Or(c0 < n1, last < n1)


@register
class TSQRGuard(ArrayOpSpec):
    """tsqr(x): a request with a row block shorter than the number of columns is refused with ValueError before any
    operation is built; otherwise the first step is entered with its precondition (every row block >= n rows)."""

    target = f"{LA}:tsqr"
    props = ("C17", "C12")

    def install(self, c):
        super().install(c)
        S = c.interp.world.summaries
        from pyvc.interp import Opaque

        def first_step(it, fn, a, k):
            x = a[0]
            it.ctx.effect("tsqr-step", "first")
            it.ctx.oblige("_qr_first_step:requires:every-row-block-has-at-least-n-rows", c.Not(short_row_block(c, x)), kind="requires")
            return (Opaque("Q1"), Opaque("R1"))

        S[f"{LA}:_qr_first_step"] = first_step
        S[f"{LA}:_r1_is_too_big"] = lambda it, fn, a, k: False
        S[f"{LA}:_qr_second_step"] = lambda it, fn, a, k: (Opaque("Q2"), Opaque("R2"), None, None, None)
        S[f"{LA}:_qr_third_step"] = lambda it, fn, a, k: Opaque("Q")

    def setup(self, c):
        x = sym_array(c, "x", 2, dtype=Dtype("float64", 8))
        c.assume(x.chunksize[1] == x.shape[1])
        c.assume(x.shape[1] >= 1)  # a matrix without columns is refused at build time (IndexError in _qr_first_step)
        c.expect_origin = None
        return (x,), {}

    def declines(self, c, a, k, e):
        return c.And(short_row_block(c, a[0]), not [x for x in c.ctx.effects if x[0] == "tsqr-step"])

    def ensures(self, c, a, k, res):
        yield "accepted-only-with-tall-row-blocks", c.Not(short_row_block(c, a[0]))

    def replay(self, cfg, model, ob):
        return QRFirstStep.replay(self, cfg, model, ob)


@register
class QRFirstStep(ArrayOpSpec):
    """_qr_first_step(A) for a 2-d array with a single column chunk: the blocks nxp.linalg.qr returns have exactly the
    shapes of the regions they are written into (Q1: that of A's block, R1: (n, n)), or the request is refused up
    front with ValueError."""

    target = f"{LA}:_qr_first_step"
    props = ("C12", "C17", "C01", "C03")
    quick_props = ("C12", "C17")

    def configs(self, tier):
        return [{}]

    def setup(self, c):
        x = sym_array(c, "x", 2, dtype=Dtype("float64", 8))
        c.assume(x.chunksize[1] == x.shape[1])  # single column chunk (qr() refuses anything else)
        c.assume(x.shape[1] >= 1)  # at least one column
        # requires (established by tsqr, see TSQRGuard): every row block has at least as many rows as there are columns
        c.assume(c.Not(short_row_block(c, x)))
        c.expect_origin = None
        return (x,), {}

    def ensures(self, c, a, k, res):
        x = a[0]
        q1, r1 = res
        yield "Q1-has-the-shape-of-A", c.eq_tuple(q1.shape, x.shape)
        yield "R1-shape", c.And(r1.shape[0] == x.shape[1] * x.numblocks[0], r1.shape[1] == x.shape[1])

    def replay_case(self, cfg, model):
        return None

    def replay(self, cfg, model, ob):
        n0, c0 = max(1, int(model.get("x_n0", 1))), max(1, int(model.get("x_c0", 1)))
        n1 = max(1, int(model.get("x_n1", 1)))
        if n0 * n1 > 200000:
            return None
        return f"""
import tempfile, shutil
import numpy as np
import cubed, cubed.array_api as xp
d = tempfile.mkdtemp(prefix="pyvc-replay-")
try:
    spec = cubed.Spec(work_dir=d, allowed_mem="2GB")
    a = np.arange({n0 * n1}, dtype="float64").reshape({n0}, {n1}) % 7 + 1.0 + np.eye({n0}, {n1})
    try:
        q, r = xp.linalg.qr(xp.asarray(a, chunks=({c0}, {n1}), spec=spec))
    except (ValueError, TypeError, NotImplementedError) as e:
        reproduced, detail = False, f"declined at build time with {{type(e).__name__}}: {{str(e)[:120]}}"
    else:
        try:
            qv, rv = cubed.compute(q, r)
            ok = qv.shape == ({n0}, {n1}) and rv.shape == ({n1}, {n1}) and np.allclose(qv @ rv, a)
            reproduced, detail = (not ok), f"Q {{qv.shape}} R {{rv.shape}}; Q @ R close to the input: {{bool(np.allclose(qv @ rv, a))}}"
        except Exception as e:
            reproduced, detail = True, f"accepted, then failed during execution: {{type(e).__name__}}: {{str(e)[:200]}}"
finally:
    shutil.rmtree(d, ignore_errors=True)
"""
