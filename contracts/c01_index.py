"""C01 / C12 / C17 — basic indexing (cubed/core/indexing.py index): step-1 slices and integer indexes.
result[g] == x[g + start] on sliced axes, integer-indexed axes are dropped; every block has its region's shape.

`ndindex` (third party) enters through an assumed contract for what `index` uses of it on such keys: canonical Slice
objects with 0 <= start <= stop <= n and step 1, Integer objects with 0 <= i < n, Tuple.args / .raw / newshape()."""
from __future__ import annotations

import z3

from pyvc.arrays import sym_array
from pyvc.spec import register
from pyvc.sym import PyExc, SInt, Unsupported, tz, wrap

from .c01_ops import ArrayOpSpec

IDX = "cubed.core.indexing"


class _NdindexStub:
    """assumed contract of ndindex for basic keys"""

    def __init__(self, c):
        stub = self
        self.c = c

        class Slice:
            def __init__(self, start, stop, step=1):
                self.start, self.stop, self.step = start, stop, step

            @property
            def raw(self):
                return slice(self.start, self.stop, self.step)

        class Integer:
            def __init__(self, i):
                self.i = i

            @property
            def raw(self):
                return self.i

        class IntegerArray:
            pass

        class Newaxis:
            pass

        class Tuple:
            def __init__(self, *args):
                self.args = tuple(args)

            @property
            def raw(self):
                return tuple(a.raw for a in self.args)

            def expand(self, shape):
                if len(self.args) > len(shape):
                    raise PyExc(IndexError, ("too many indices for array",))
                it = c.interp
                out = []
                for a, n in zip(self.args, shape):
                    if isinstance(a, Slice):
                        # canonical form: bounds clipped to [0, n], step 1 (the contract is stated for such keys only)
                        if a.step not in (None, 1):
                            raise Unsupported("ndindex contract: slice with a step")
                        s0 = 0 if a.start is None else a.start
                        s1 = n if a.stop is None else a.stop
                        if it.truth(wrap(z3.Or(tz(s0) < 0, tz(s1) > tz(n), tz(s0) > tz(s1)))):
                            raise Unsupported("ndindex contract: slice bounds outside 0 <= start <= stop <= n")
                        out.append(Slice(s0, s1, 1))
                    elif isinstance(a, Integer):
                        if it.truth(wrap(z3.Or(tz(a.i) < 0, tz(a.i) >= tz(n)))):
                            raise PyExc(IndexError, ("index out of bounds",))
                        out.append(a)
                    else:
                        raise Unsupported("ndindex contract: key item")
                for n in shape[len(self.args):]:
                    out.append(Slice(0, n, 1))
                return Tuple(*out)

            def newshape(self, shape):
                return tuple(a.stop - a.start for a in self.args if isinstance(a, Slice))

        def ndindex(key):
            items = []
            for k in (key if isinstance(key, tuple) else (key,)):
                if isinstance(k, slice):
                    items.append(Slice(k.start, k.stop, k.step if k.step is not None else 1))
                elif isinstance(k, (int, SInt)):
                    items.append(Integer(k))
                else:
                    raise Unsupported("ndindex contract: key item")
            return Tuple(*items)

        self.Slice, self.Integer, self.IntegerArray, self.Newaxis, self.Tuple, self.ndindex = Slice, Integer, IntegerArray, Newaxis, Tuple, ndindex


@register
class IndexBasic(ArrayOpSpec):
    target = f"{IDX}:index"
    props = ("C01", "C12", "C17")
    quick_props = ("C01",)

    bounded = ("key forms enumerated: x[:b], x[a:], x[a:b], x[i, :b], x[:b, :d], x[:b] — bounds, index, extents and chunk sizes symbolic",)

    def configs(self, tier):
        # form: prefix = slices start at 0, suffix = slices stop at the end, None = general (the general and suffix forms
        # are misaligned with the chunk grid and take minutes of nonlinear solving: thorough tier)
        out = [dict(ndim=1, key=["s"], form="prefix"), dict(ndim=2, key=["i", "s"], form="prefix")]
        if tier != "quick":
            out += [dict(ndim=1, key=["s"], form="suffix"), dict(ndim=1, key=["s"], form=None),
                    dict(ndim=2, key=["s", "s"], form="prefix"), dict(ndim=2, key=["s"], form="prefix")]  # (x[i, a:] exceeds the budget)
        return out

    def install(self, c):
        super().install(c)
        c.interp.world.module_overrides["ndindex"] = _NdindexStub(c)
        c.ctx.note_assumption("ndindex: canonical Slice/Integer/Tuple objects for basic keys (assumed contract)")

    def setup(self, c):
        nd = c.cfg["ndim"]
        x = sym_array(c, "x", nd)
        key, starts, kept = [], [], []
        for i, kind in enumerate(c.cfg["key"]):
            n = x.shape[i]
            if kind == "s":
                # the start is given as (block q, offset r within the block): keeps the region arithmetic free of div/mod
                q, r = c.int(f"a{i}_block", lo=0), c.int(f"a{i}_offset", lo=0)
                cs = x.chunksize[i]
                c.assume(r < cs)
                a = q * cs + r
                c.ctx.symvars[f"a{i}"] = tz(a)
                c.ctx.register_quotient(q, a, cs)
                b = c.int(f"b{i}", lo=0)
                c.assume(a <= b)
                c.assume(b <= n)
                if c.cfg.get("form") == "prefix":
                    c.assume(a == 0)
                elif c.cfg.get("form") == "suffix":
                    c.assume(b == n)
                key.append(slice(a, b))
                starts.append(a)
                kept.append(i)
            else:
                j = c.int(f"i{i}", lo=0)
                c.assume(j < n)
                key.append(j)
                starts.append(j)
        for i in range(len(key), nd):
            starts.append(0)
            kept.append(i)
        c.starts, c.kept, c.key = starts, kept, key

        def exp(j, g):
            it = iter(g)
            return (x.name, tuple((starts[i] + next(it)) if i in kept else starts[i] for i in range(nd)))

        c.expect_origin = exp
        return (x, tuple(key)), {}

    def ensures(self, c, a, k, res):
        x = a[0]
        want = []
        for i in range(x.ndim):
            if i in c.kept:
                want.append((c.key[i].stop - c.key[i].start) if i < len(c.key) else x.shape[i])
        yield "shape", c.eq_tuple(res.shape, tuple(want))

    def replay_case(self, cfg, model):
        parts = []
        for i, kind in enumerate(cfg["key"]):
            if kind == "s":
                parts.append(f"slice({int(model.get(f'a{i}', 0))}, {int(model.get(f'b{i}', 0))})")
            else:
                parts.append(str(int(model.get(f"i{i}", 0))))
        key = "(" + ", ".join(parts) + ",)"
        return ({"x": (cfg["ndim"], None)}, f"lambda xp, a: a['x'][{key}]", f"lambda np, a: a['x'][{key}]")
