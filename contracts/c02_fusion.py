"""C02 — graph optimisation (operation fusion) never changes any computed value.

The fusion lemma, on the real code (cubed/primitive/blockwise.py fuse, fuse_multiple, fuse_blockwise_specs,
make_fused_back_key_function, make_fused_function, apply_blockwise_key_func, apply_blockwise_func, map_nested,
get_results_in_different_scope; cubed/core/optimization.py simple_optimize_dag, can_fuse_predecessors,
fuse_predecessors, multiple_inputs_optimize_dag, fuse_all_optimize_dag, fuse_only_optimize_dag).

Block functions and key functions are *uninterpreted*: a block value is a Herbrand term
        Read(array, coords)  |  App(f, [arg, ...])      arg ::= term | ("list", [arg...]) | ("iter", [arg...])
and the coordinates a key function hands to its sources are uninterpreted integer functions of the output coordinates
(z3 UFs).  Two executions deliver the same block for *every* interpretation of the block functions iff their terms are
equal (free algebra), so term equality with z3-valid coordinate equalities is the exact statement of "fusion never
changes what is computed".  What a task computes is obtained by running the real reader
`get_results_in_different_scope` (key function -> map_nested(get_chunk) -> function) with `get_chunk` replaced by its
contract: reading (array, coords) yields the block the array's producer computes for those coordinates
(Read(array, coords) for arrays that are inputs of the plan).  That contract is where C05 (the producer writes every
block, once) and C07 (it ran before) enter; they are checked separately.

Bounded in: the DAG shapes (enumerated below), list/iterator argument lengths (<= 2).  Unbounded in: block coordinates,
key functions, block functions, memory figures, numbers of tasks/blocks."""
from __future__ import annotations

import itertools

import networkx as nx
import z3

from pyvc import gb
from pyvc.arrays import Dtype, ZArr
from pyvc.interp import GenList, IObj, Opaque
from pyvc.spec import FuncSpec, register
from pyvc.sym import PyExc, SInt, Unsupported, tb, tz, wrap

PB = "cubed.primitive.blockwise"
OPT = "cubed.core.optimization"


# ---------------------------------------------------------------------------------------------------------------------
# Herbrand terms


class Read:
    def __init__(self, name, coords):
        self.name, self.coords = name, tuple(coords)

    def __repr__(self):
        return f"Read({self.name},{self.coords})"


class App:
    def __init__(self, f, args):
        self.f, self.args = f, list(args)

    def __repr__(self):
        return f"{self.f}({', '.join(map(repr, self.args))})"


def reify(v):
    """what a block function sees -> term argument (containers are consumed and tagged)"""
    if isinstance(v, (Read, App)):
        return v
    if isinstance(v, GenList):
        return ("iter", [reify(x) for x in v])
    if isinstance(v, list):
        return ("list", [reify(x) for x in v])
    if isinstance(v, tuple):
        return ("tuple", [reify(x) for x in v])
    if hasattr(v, "__next__") or hasattr(v, "__iter__") and not isinstance(v, (str, bytes, dict)):
        return ("iter", [reify(x) for x in v])
    return ("const", v)


def term_eq(a, b):
    """-> z3 Bool / python bool: the two terms are equal"""
    if isinstance(a, Read) and isinstance(b, Read):
        if a.name != b.name or len(a.coords) != len(b.coords):
            return False
        if not a.coords:
            return True
        return z3.And(*[tz(x) == tz(y) for x, y in zip(a.coords, b.coords)])
    if isinstance(a, App) and isinstance(b, App):
        if a.f != b.f or len(a.args) != len(b.args):
            return False
        return conj([term_eq(x, y) for x, y in zip(a.args, b.args)])
    if isinstance(a, tuple) and isinstance(b, tuple):
        if a[0] != b[0]:
            return False
        if a[0] == "const":
            return a[1] is b[1] or a[1] == b[1]
        if len(a[1]) != len(b[1]):
            return False
        return conj([term_eq(x, y) for x, y in zip(a[1], b[1])])
    return False


def conj(xs):
    out = []
    for x in xs:
        if x is False:
            return False
        if x is True:
            continue
        out.append(x)
    if not out:
        return True
    return z3.And(*out)


def show(t):
    return repr(t)[:300]


# ---------------------------------------------------------------------------------------------------------------------
# operations with uninterpreted key and block functions


class BlockFn:
    """uninterpreted block function: builds the application term of what it is given"""

    _pyvc_is_gen = False

    def __init__(self, label, n_out=1):
        self.label, self.n_out = label, n_out
        self.__name__ = label
        self._pyvc_is_gen = n_out > 1

    def __call__(self, *args, **kwargs):
        a = [reify(x) for x in args]
        if self.n_out == 1:
            return App(self.label, a)
        return GenList([App(f"{self.label}#{i}", a) for i in range(self.n_out)])


class KeyFn:
    """uninterpreted key function: out coords -> FunctionArgs of ChunkKey | [ChunkKey..] | iterator of ChunkKey, the
    sources' coordinates being uninterpreted functions of the output coordinates"""

    def __init__(self, c, label, out_name, argspecs, rank):
        self.c, self.label, self.out_name, self.argspecs, self.rank = c, label, out_name, argspecs, rank
        self.ufs = {}

    def uf(self, i, j, d):
        key = (i, j, d)
        if key not in self.ufs:
            self.ufs[key] = z3.Function(f"g_{self.label}_{i}_{j}_{d}", *([z3.IntSort()] * self.rank), z3.IntSort())
        return self.ufs[key]

    def keys(self, coords):
        """nested python structure of (array, coords)"""
        it = self.c.interp
        cz = [tz(x) for x in coords]
        out = []
        for i, (src, kind, n) in enumerate(self.argspecs):
            ks = [(src, tuple(wrap(self.uf(i, j, d)(*cz)) for d in range(self.rank))) for j in range(n)]
            out.append((kind, ks))
        return out

    def __call__(self, out_key):
        it = self.c.interp
        CK = it.world.lookup(f"{PB}:ChunkKey")
        FA = it.world.lookup(f"{PB}:FunctionArgs")
        coords = tuple(out_key.coords)
        if len(coords) != self.rank:
            raise PyExc(AssertionError, (f"key function {self.label} called with rank {len(coords)}",))
        args = []
        for kind, ks in self.keys(coords):
            objs = [it.call(CK, [nm, cs], {}) for nm, cs in ks]
            if kind == "one":
                args.append(objs[0])
            elif kind == "list":
                args.append(objs)
            else:
                args.append(iter(objs))
        return it.call(FA, args, dict(output_name=self.out_name))


def mk_sem_op(c, label, argspecs, outs=None, rank=1, fusable_pred=True, fusable_succ=True, virtual_srcs=()):
    """A PrimitiveOperation as general_blockwise builds it (projected_mem >= reserved_mem + chunk memory, num_tasks >= 1,
    writes_map keyed by its target names, reads_map by its source names, num_input_blocks per argument)."""
    it = c.interp
    PO = it.world.lookup("cubed.primitive.types:PrimitiveOperation")
    CP = it.world.lookup("cubed.runtime.types:CubedPipeline")
    BS = it.world.lookup(f"{PB}:BlockwiseSpec")
    AB = it.world.lookup(f"{PB}:apply_blockwise")
    outs = outs or [f"array-{label}"]
    isz = c.int(f"{label}_itemsize", lo=1)
    ch = c.int(f"{label}_chunk", lo=1)
    tgts = [ZArr(f"z:{o}", (c.int(f"{label}_n", lo=1),), Dtype(f"{label}.dt", isz), (ch,), kind="lazy") for o in outs]
    proj = c.int(f"{label}_projected_mem", lo=0)
    allowed = c.int("allowed_mem", lo=0)
    reserved = c.int("reserved_mem", lo=0)
    ntasks = c.int(f"{label}_num_tasks", lo=1)
    c.assume(proj >= reserved + isz * ch)
    keyfn = KeyFn(c, label, outs[0], argspecs, rank)
    fn = BlockFn(f"F_{label}", n_out=len(outs))
    nib = tuple(n for (_s, _k, n) in argspecs)
    reads = {}
    for (s, _k, _n) in argspecs:
        reads.setdefault(s, Opaque(f"read-proxy:{s}"))
    writes = {o: Opaque(f"write-proxy:{o}") for o in outs}
    spec = it.call(BS, [keyfn, fn, nib, tuple(1 for _ in outs), reads, writes], {})
    pipe = it.call(CP, [AB, f"{label}-pipeline", Opaque(f"{label}.mappable"), spec], {})
    op = it.call(PO, [], dict(pipeline=pipe, source_array_names=[s for (s, _k, _n) in argspecs],
                              target_array=tgts[0] if len(tgts) == 1 else tgts, projected_mem=proj, allowed_mem=allowed,
                              reserved_mem=reserved, num_tasks=ntasks, fusable_with_predecessors=fusable_pred,
                              fusable_with_successors=fusable_succ))
    op_meta = dict(keyfn=keyfn, fn=fn, outs=outs, argspecs=argspecs)
    return op, op_meta


# ---------------------------------------------------------------------------------------------------------------------
# what a plan computes


class Denotation:
    """den(array, coords): the block a plan stores at (array, coords), by running the *real* task reader
    (`get_results_in_different_scope`) of the array's producer with get_chunk's contract."""

    def __init__(self, c, dag, label):
        self.c, self.dag, self.label = c, dag, label
        self.read_log = []  # (op node, array name) pairs actually read
        self.missing_proxy = []

    def producer(self, array):
        pres = [u for u, _ in self.dag.in_edges(array)]
        if len(pres) != 1:
            raise PyExc(AssertionError, (f"{self.label}: array {array} has {len(pres)} producers",))
        return pres[0]

    def den(self, array, coords, depth=0):
        it = self.c.interp
        if array not in self.dag:
            return App(f"<missing array {array}>", [])
        opn = self.producer(array)
        nd = self.dag.nodes[opn]
        if "primitive_op" not in nd:
            return Read(array, coords)
        if depth > 12:
            raise Unsupported("denotation depth")
        po = nd["primitive_op"]
        cfg = po.pipeline.config
        outs = list(cfg.writes_map.keys())
        grs = it.world.lookup(f"{PB}:get_results_in_different_scope")
        S = it.world.summaries
        prev = S.get(f"{PB}:get_chunk")

        def get_chunk(it_, fn, a, k, opn=opn, depth=depth):
            in_key = a[0]
            config = k.get("config") if "config" in k else a[1]
            name = in_key.name
            self.read_log.append((opn, name))
            if name not in config.reads_map:
                self.missing_proxy.append((opn, name))
            return self.den(name, tuple(in_key.coords), depth + 1)

        S[f"{PB}:get_chunk"] = get_chunk
        try:
            res = it.call(grs, [list(coords)], dict(config=cfg))
        finally:
            if prev is None:
                S.pop(f"{PB}:get_chunk", None)
            else:
                S[f"{PB}:get_chunk"] = prev
        # apply_blockwise pairs the results with writes_map.values()
        isgen = _is_gen(cfg.function)
        if not isgen and not isinstance(res, tuple):
            results = [res]
        else:
            results = list(res)
        if array not in outs:
            return App(f"<{array} not written by {opn}>", [])
        i = outs.index(array)
        if i >= len(results):
            return App(f"<{opn} yields {len(results)} results for {len(outs)} outputs>", [])
        return results[i]


def _is_gen(fn):
    from pyvc.interp import Closure

    if isinstance(fn, Closure):
        return bool(fn.is_gen)
    return bool(getattr(fn, "_pyvc_is_gen", False))


# ---------------------------------------------------------------------------------------------------------------------
# plans (enumerated shapes)

# op: (label, [(source array, kind, n)], options)
def A(x):
    return f"array-{x}"


SHAPES = {
    # s -> a -> b
    "chain2": dict(ops=[("a", [("s0", "one", 1)]), ("b", [("a", "one", 1)])], want=["b"]),
    # s -> a -> b -> c
    "chain3": dict(ops=[("a", [("s0", "one", 1)]), ("b", [("a", "one", 1)]), ("c", [("b", "one", 1)])], want=["c"]),
    # chain with the intermediate requested as well
    "chain3-mid-requested": dict(ops=[("a", [("s0", "one", 1)]), ("b", [("a", "one", 1)]), ("c", [("b", "one", 1)])], want=["c", "b"]),
    # c = f(a, b), a and b elementwise on different sources
    "binary": dict(ops=[("a", [("s0", "one", 1)]), ("b", [("s1", "one", 1)]), ("c", [("a", "one", 1), ("b", "one", 1)])], want=["c"]),
    # c = f(a, a): repeated argument
    "repeated-arg": dict(ops=[("a", [("s0", "one", 1)]), ("c", [("a", "one", 1), ("a", "one", 1)])], want=["c"]),
    # c = f(a, a) / f(a, s1, a) where a is produced from a *stream* (iterator) or a list of blocks
    "repeated-arg-stream": dict(ops=[("a", [("s0", "iter", 2)]), ("c", [("a", "one", 1), ("a", "one", 1)])], want=["c"]),
    "repeated-arg-list": dict(ops=[("a", [("s0", "list", 2)]), ("c", [("a", "one", 1), ("s1", "one", 1), ("a", "one", 1)])], want=["c"]),
    # fusion tree of depth 3 over mixed key-function shapes
    "depth3-mixed": dict(ops=[("a", [("s0", "iter", 2)]), ("b", [("a", "list", 2), ("s1", "one", 1)]), ("c", [("b", "one", 1), ("b", "one", 1)]),
                              ("d", [("c", "iter", 2)])], want=["d"]),
    # diamond: b = f(a), c = g(a), d = h(b, c): a is shared by two consumers
    "diamond": dict(ops=[("a", [("s0", "one", 1)]), ("b", [("a", "one", 1)]), ("c", [("a", "one", 1)]), ("d", [("b", "one", 1), ("c", "one", 1)])], want=["d"]),
    # mixed levels: c = f(s0, a) where a = g(s0)
    "mixed-levels": dict(ops=[("a", [("s0", "one", 1)]), ("c", [("s0", "one", 1), ("a", "one", 1)])], want=["c"]),
    # the consumer reads several blocks of its input (reduction-like): list and iterator arguments
    "reduce-list": dict(ops=[("a", [("s0", "one", 1)]), ("b", [("a", "list", 2)])], want=["b"]),
    "reduce-iter": dict(ops=[("a", [("s0", "one", 1)]), ("b", [("a", "iter", 2)])], want=["b"]),
    # predecessor itself reads several blocks; consumer reads several blocks of it (nesting)
    "reduce-of-reduce": dict(ops=[("a", [("s0", "list", 2)]), ("b", [("a", "iter", 2)])], want=["b"]),
    "list-and-one": dict(ops=[("a", [("s0", "one", 1)]), ("b", [("s1", "iter", 2)]), ("c", [("a", "list", 2), ("b", "one", 1)])], want=["c"]),
    # multi-output operation feeding a consumer
    "multi-output-pred": dict(ops=[("m", [("s0", "one", 1)], dict(outs=["m0", "m1"])), ("c", [("m1", "one", 1)])], want=["c", "m0"]),
    "multi-output-both": dict(ops=[("m", [("s0", "one", 1)], dict(outs=["m0", "m1"])), ("c", [("m0", "one", 1), ("m1", "one", 1)])], want=["c"]),
    # multi-output operation as the consumer of a fusable predecessor
    "multi-output-succ": dict(ops=[("a", [("s0", "one", 1)]), ("m", [("a", "one", 1)], dict(outs=["m0", "m1"]))], want=["m0", "m1"]),
    # an operation that must not be fused (rechunk / store) in the middle and at the end
    "rechunk-mid": dict(ops=[("a", [("s0", "one", 1)]), ("r", [("a", "one", 1)], dict(fp=False, fs=False)), ("c", [("r", "one", 1)])], want=["c"]),
    "store-end": dict(ops=[("a", [("s0", "one", 1)]), ("b", [("a", "one", 1)]), ("t", [("b", "one", 1)], dict(fp=False, fs=False))], want=["t"]),
    # two requested arrays sharing an intermediate
    "shared-two-requested": dict(ops=[("a", [("s0", "one", 1)]), ("b", [("a", "one", 1)]), ("c", [("a", "one", 1)])], want=["b", "c"]),
    # wide fan-in (max_total_source_arrays)
    "fan-in3": dict(ops=[("a", [("s0", "one", 1), ("s1", "one", 1)]), ("b", [("s2", "one", 1), ("s3", "one", 1)]), ("c", [("s4", "one", 1)]),
                         ("d", [("a", "one", 1), ("b", "one", 1), ("c", "one", 1)])], want=["d"]),
    # two levels of binary ops
    "tree": dict(ops=[("a", [("s0", "one", 1)]), ("b", [("s1", "one", 1)]), ("c", [("a", "one", 1), ("b", "one", 1)]), ("d", [("s2", "one", 1)]),
                      ("e", [("c", "one", 1), ("d", "one", 1)])], want=["e"]),
    # an input with a virtual (in-memory) array, which does not count as a source array
    "virtual-input": dict(ops=[("a", [("s0", "one", 1), ("v0", "one", 1)]), ("b", [("s1", "one", 1), ("v0", "one", 1)]), ("c", [("a", "one", 1), ("b", "one", 1)])], want=["c"]),
}


def build_plan(c, shape, rank=1):
    sh = SHAPES[shape]
    dag = nx.MultiDiGraph()
    metas = {}
    VirtualArray = c.interp.world.lookup("cubed.storage.virtual:VirtualArray")
    srcs = []
    for spec in sh["ops"]:
        label, args = spec[0], spec[1]
        opts = spec[2] if len(spec) > 2 else {}
        outs = [A(o) for o in opts.get("outs", [label])]
        argspecs = [(A(s), k, n) for (s, k, n) in args]
        op, meta = mk_sem_op(c, label, argspecs, outs=outs, rank=rank, fusable_pred=opts.get("fp", True), fusable_succ=opts.get("fs", True))
        opn = f"op-{label}"
        dag.add_node(opn, name=opn, type="op", primitive_op=op, pipeline=op.pipeline, op_name="blockwise")
        tg = op.target_array if isinstance(op.target_array, list) else [op.target_array]
        for o, t in zip(outs, tg):
            dag.add_node(o, name=o, type="array", target=t)
            dag.add_edge(opn, o)
        for (s, _k, _n) in argspecs:
            if s not in dag:
                srcs.append(s)
                dag.add_node(s, name=s, type="array",
                             target=(IObj(VirtualArray, {}) if s.startswith("array-v") else Opaque(f"zarr:{s}")))
                pn = "op-" + s[len("array-"):]
                dag.add_node(pn, name=pn, type="op", op_name="asarray")
                dag.add_edge(pn, s)
            dag.add_edge(s, opn)
        metas[opn] = meta
    return dag, metas, [A(w) for w in sh["want"]]


def snapshot(dag):
    return dict(nodes={n: dict(d) for n, d in dag.nodes(data=True)}, edges=sorted((u, v) for u, v in dag.edges()))


class FusionSpec(FuncSpec):
    # C15's second half: after fusion each original function still receives the blocks it would have received
    # unfused, in the same structure (lists stay lists, streams stay streams)
    props = ("C02", "C15")
    bounded = ("plan shapes enumerated (chains, diamonds, repeated arguments, mixed levels, reductions over lists/iterators, "
               "multi-output operations, unfusable operations, shared intermediates, fan-in, virtual inputs); list/iterator "
               "arguments of length 2",)
    max_paths = 4000

    def install(self, c):
        S = gb.install(c)
        S[f"{PB}:gensym"] = lambda it, fn, a, k: f"{a[0] if a else 'op'}-fresh"
        S["cubed.utils:memory_repr"] = lambda it, fn, a, k: "<mem>"

    native_optimizer = None

    def replay(self, cfg, model, ob):
        """native instances of the plan shape under the optimiser of this contract (pyvc/replay_opt.py)"""
        if self.native_optimizer is None or "shape" not in cfg:
            return None
        name, kw = self.native_optimizer, {}
        mode = cfg.get("mode")
        if mode == "always":
            name = "fuse_all_optimize_dag"
        elif mode == "limits":
            for k_ in ("max_total_source_arrays", "max_total_num_input_blocks"):
                if k_ in model:
                    kw[k_] = int(model[k_])
        return ("import sys\nsys.path.insert(0, '/verif')\nfrom pyvc.replay_opt import run_opt_case\n"
                f"reproduced, detail = run_opt_case({cfg['shape']!r}, {name!r}, {kw!r})\n")

    def check_plan(self, c, before, snap, metas, want, opt):
        """postconditions relating the optimised plan `opt` to the plan `before`"""
        rank = c.cfg.get("rank", 1)
        # frame: the plan that was passed in is not modified (optimisation works on a copy)
        now = snapshot(before)
        yield "input-plan-unchanged:nodes-and-edges", sorted(now["nodes"]) == sorted(snap["nodes"]) and now["edges"] == snap["edges"]
        yield "input-plan-unchanged:operations", all(
            now["nodes"][n].get("primitive_op") is snap["nodes"][n].get("primitive_op")
            and now["nodes"][n].get("pipeline") is snap["nodes"][n].get("pipeline") for n in snap["nodes"] if n in now["nodes"])
        d0 = Denotation(c, before, "unoptimised")
        d1 = Denotation(c, opt, "optimised")
        for a in want:
            ok = a in opt and len([u for u, _ in opt.in_edges(a)]) == 1
            yield f"requested-array-still-materialised[{a}]", ok
            if ok:
                p = d1.producer(a)
                po = opt.nodes[p].get("primitive_op")
                tgt0 = before.nodes[a]["target"]
                tl = po.target_array if isinstance(po.target_array, list) else [po.target_array]
                yield f"requested-array-written-to-its-own-target[{a}]", any(t is tgt0 for t in tl) and a in po.pipeline.config.writes_map
        arrays = [n for n, d in opt.nodes(data=True) if d.get("type") == "array"]
        for a in arrays:
            if a not in before:
                yield f"no-new-arrays[{a}]", False
                continue
            coords = tuple(c.ctx.fresh_int(f"k_{a[6:]}_{i}", lo=0) for i in range(rank))
            t0 = d0.den(a, coords)
            try:
                t1 = d1.den(a, coords)
            except PyExc as e:
                # the optimised plan's task raises where the unoptimised one computes a block
                c.ctx.oblige(f"optimised-task-raises-nothing[{a}]", False, kind="ensures", detail=f"{e.tname}{e.eargs!r}"[:200], assume_after=False)
                continue
            eq = term_eq(t1, t0)
            c.ctx.last_terms = (show(t1), show(t0))
            yield f"value-unchanged[{a}]", eq
        # every array an operation reads is one of its predecessors in the plan (the scheduler's only ordering
        # information) and has a read proxy
        bad = sorted({(o, n) for (o, n) in d1.read_log if not opt.has_edge(n, o)})
        yield "every-array-read-is-a-plan-predecessor", not bad
        yield "every-array-read-has-a-read-proxy", not d1.missing_proxy
        for n, d in opt.nodes(data=True):
            if "primitive_op" in d:
                po = d["primitive_op"]
                yield f"pipeline-attribute-is-the-operation's[{n}]", d.get("pipeline") is po.pipeline
                yield f"task-count-unchanged[{n}]", po.num_tasks == before.nodes[n]["primitive_op"].num_tasks
                preds = sorted({u for u, _ in opt.in_edges(n)})
                yield f"source-names-are-the-plan-predecessors[{n}]", sorted(set(po.source_array_names)) == preds


@register
class MultipleInputsOptimize(FusionSpec):
    """multiple_inputs_optimize_dag(dag, array_names=..., max_total_source_arrays, max_total_num_input_blocks,
    always_fuse, never_fuse): for every array of the optimised plan the block stored at any coordinates is the block the
    unoptimised plan stores there; requested arrays stay, written to their own targets; the plan passed in is not
    modified; reads of fused operations are plan predecessors."""

    target = f"{OPT}:multiple_inputs_optimize_dag"
    native_optimizer = "multiple_inputs_optimize_dag"

    def configs(self, tier):
        cf = []
        for s in SHAPES:
            cf.append(dict(shape=s, mode="default"))
            cf.append(dict(shape=s, mode="always"))
        for s in ("fan-in3", "tree", "virtual-input", "binary"):
            cf.append(dict(shape=s, mode="limits"))
        for s in ("chain3", "diamond", "tree"):
            cf.append(dict(shape=s, mode="never-some"))
        if tier != "quick":
            cf += [dict(shape=s, mode="default", rank=2) for s in ("chain3", "reduce-of-reduce", "repeated-arg", "list-and-one")]
        return cf

    def setup(self, c):
        dag, metas, want = build_plan(c, c.cfg["shape"], rank=c.cfg.get("rank", 1))
        c.plan, c.metas, c.want = dag, metas, want
        c.snap = snapshot(dag)
        ops = [n for n in dag if n.startswith("op-") and "primitive_op" in dag.nodes[n]]
        kw = dict(array_names=tuple(want))
        mode = c.cfg["mode"]
        if mode == "always":
            kw["always_fuse"] = list(ops)
        elif mode == "limits":
            kw["max_total_source_arrays"] = c.int("max_total_source_arrays", lo=0)
            kw["max_total_num_input_blocks"] = c.int("max_total_num_input_blocks", lo=0)
        elif mode == "never-some":
            kw["never_fuse"] = ops[1::2]
            kw["always_fuse"] = ops[0::2]
        return (dag,), kw

    def ensures(self, c, a, k, res):
        yield from self.check_plan(c, c.plan, c.snap, c.metas, c.want, res)

    def canaries(self, c, a, k, res):
        # where fusion is forced and possible, some path must actually fuse (else the value obligations are vacuous)
        if c.cfg["mode"] == "always" and c.cfg["shape"] in ("chain2", "chain3", "binary", "repeated-arg", "reduce-list", "diamond"):
            yield "canary:nothing-was-fused", res.number_of_nodes() == c.plan.number_of_nodes()


@register
class SimpleOptimize(FusionSpec):
    quick_props = ("C02",)
    """simple_optimize_dag(dag, array_names): the legacy map-fusion optimiser (linear chains, `fuse`)."""

    target = f"{OPT}:simple_optimize_dag"
    native_optimizer = "simple_optimize_dag"

    def configs(self, tier):
        return [dict(shape=s) for s in SHAPES]

    def setup(self, c):
        dag, metas, want = build_plan(c, c.cfg["shape"])
        c.plan, c.metas, c.want = dag, metas, want
        c.snap = snapshot(dag)
        # legacy fusion requires equal task counts (can_fuse_primitive_ops checks it)
        return (dag, tuple(want)), {}

    def ensures(self, c, a, k, res):
        yield from self.check_plan(c, c.plan, c.snap, c.metas, c.want, res)


@register
class FuseAllOptimize(FusionSpec):
    quick_props = ("C02",)
    target = f"{OPT}:fuse_all_optimize_dag"
    native_optimizer = "fuse_all_optimize_dag"

    def configs(self, tier):
        return [dict(shape=s) for s in SHAPES]

    def setup(self, c):
        dag, metas, want = build_plan(c, c.cfg["shape"])
        c.plan, c.metas, c.want = dag, metas, want
        c.snap = snapshot(dag)
        return (dag, tuple(want)), {}

    def ensures(self, c, a, k, res):
        yield from self.check_plan(c, c.plan, c.snap, c.metas, c.want, res)


@register
class FuseOnlyOptimize(FusionSpec):
    quick_props = ("C02",)
    target = f"{OPT}:fuse_only_optimize_dag"

    def configs(self, tier):
        out = []
        for s in ("chain3", "diamond", "tree", "binary", "reduce-of-reduce", "multi-output-succ", "store-end"):
            for pick in (0, 1):
                out.append(dict(shape=s, pick=pick))
        return out

    def setup(self, c):
        dag, metas, want = build_plan(c, c.cfg["shape"])
        c.plan, c.metas, c.want = dag, metas, want
        c.snap = snapshot(dag)
        ops = [n for n in dag if n.startswith("op-") and "primitive_op" in dag.nodes[n]]
        only = ops[c.cfg["pick"]::2]
        return (dag,), dict(array_names=tuple(want), only_fuse=only)

    def ensures(self, c, a, k, res):
        yield from self.check_plan(c, c.plan, c.snap, c.metas, c.want, res)


# ---------------------------------------------------------------------------------------------------------------------
# the lemma on fuse_blockwise_specs itself, against an independent reference (no map_nested, no reader)


def ref_value(kind_keys, preds):
    """what the unfused pair of stages hands the consumer for one argument: kind_keys = (kind, [(array, coords)..])"""
    kind, ks = kind_keys

    def one(nm, cs):
        p = preds.get(nm)
        if p is None:
            return Read(nm, cs)
        kf, fn = p
        inner = []
        for k2, ks2 in kf.keys(cs):
            vals = [Read(n2, c2) for n2, c2 in ks2]
            inner.append(vals[0] if k2 == "one" else (k2, vals))
        return App(fn.label, inner)

    vals = [one(nm, cs) for nm, cs in ks]
    return vals[0] if kind == "one" else (kind, vals)


@register
class FuseBlockwiseSpecs(FusionSpec):
    """fuse_blockwise_specs(spec, *pred_specs) and the reader: for any output coordinates the fused function applied to
    the blocks the fused key function asks for equals F(U(a_1), ..., U(a_m)) with U(key of a fused predecessor p) =
    F_p(blocks K_p asks for), U(other key) = the stored block, containers preserved (list stays list, iterator stays
    iterator); num_input_blocks of the fused spec is the per-source product."""

    target = f"{PB}:fuse_blockwise_specs"

    CASES = {
        "one<-one": ([("p0", "one", 1)], {"p0": [("s0", "one", 1)]}),
        "one<-none": ([("s0", "one", 1)], {}),
        "two<-one,none": ([("p0", "one", 1), ("s1", "one", 1)], {"p0": [("s0", "one", 1)]}),
        "two<-none,one": ([("s1", "one", 1), ("p0", "one", 1)], {"p0": [("s0", "one", 1)]}),
        "two<-same": ([("p0", "one", 1), ("p0", "one", 1)], {"p0": [("s0", "one", 1)]}),
        "list<-one": ([("p0", "list", 2)], {"p0": [("s0", "one", 1)]}),
        "iter<-one": ([("p0", "iter", 2)], {"p0": [("s0", "one", 1)]}),
        "iter<-list": ([("p0", "iter", 2)], {"p0": [("s0", "list", 2)]}),
        "list<-iter,two": ([("p0", "list", 2), ("p1", "one", 1)], {"p0": [("s0", "iter", 2)], "p1": [("s1", "one", 1), ("s2", "one", 1)]}),
        "one<-two-sources": ([("p0", "one", 1)], {"p0": [("s0", "one", 1), ("s1", "list", 2)]}),
        "list<-none": ([("s0", "list", 2), ("p0", "one", 1)], {"p0": [("s1", "one", 1)]}),
        "two<-same-stream": ([("p0", "one", 1), ("p0", "one", 1)], {"p0": [("s0", "iter", 2)]}),
        "three<-same-list,none,same": ([("p0", "one", 1), ("s1", "one", 1), ("p0", "one", 1)], {"p0": [("s0", "list", 2)]}),
        "iter<-same-stream": ([("p0", "iter", 2), ("p0", "one", 1)], {"p0": [("s0", "iter", 2)]}),
    }

    def configs(self, tier):
        return [dict(case=k, gen=g) for k in self.CASES for g in (False, True)]

    def replay(self, cfg, model, ob):
        opargs, preds = self.CASES[cfg["case"]]
        return ("import sys\nsys.path.insert(0, '/verif')\nfrom pyvc.replay_opt import run_fuse_case\n"
                f"reproduced, detail = run_fuse_case({opargs!r}, {preds!r}, gen={bool(cfg['gen'])!r})\n")

    def setup(self, c):
        opargs, preds = self.CASES[c.cfg["case"]]
        outs = ["array-o0", "array-o1"] if c.cfg["gen"] else ["array-o"]
        op, meta = mk_sem_op(c, "o", [(A(s), k, n) for s, k, n in opargs], outs=outs)
        c.meta = meta
        c.preds = {}
        specs = []
        it = c.interp
        BS = it.world.lookup(f"{PB}:BlockwiseSpec")
        FA = it.world.lookup(f"{PB}:FunctionArgs")
        for (s, _k, _n) in opargs:
            if s in preds:
                if A(s) not in c.preds:
                    pop, pmeta = mk_sem_op(c, s, [(A(x), k, n) for x, k, n in preds[s]])
                    c.preds[A(s)] = (pmeta["keyfn"], pmeta["fn"], pop.pipeline.config)
                specs.append(c.preds[A(s)][2])
            else:
                # what fuse_multiple passes for a predecessor that is not fused
                null = it.call(BS, [], dict(back_key_function=lambda x: it.call(FA, [x], dict(output_name=x.name)),
                                            function=lambda x: x, num_input_blocks=(1,), num_output_blocks=(1,), reads_map={}, writes_map={}))
                specs.append(null)
        c.opspec = op.pipeline.config
        return (op.pipeline.config, *specs), {}

    def ensures(self, c, a, k, fused):
        it = c.interp
        opargs, preds = self.CASES[c.cfg["case"]]
        meta = c.meta
        coords = (c.ctx.fresh_int("k0", lo=0),)
        # fused execution through the real reader
        grs = it.world.lookup(f"{PB}:get_results_in_different_scope")
        S = it.world.summaries
        reads = []

        def get_chunk(it_, fn, a_, k_):
            in_key = a_[0]
            config = k_.get("config") if "config" in k_ else a_[1]
            reads.append((in_key.name, in_key.name in config.reads_map))
            return Read(in_key.name, tuple(in_key.coords))

        S[f"{PB}:get_chunk"] = get_chunk
        try:
            res = it.call(grs, [list(coords)], dict(config=fused))
        except PyExc as e:
            c.ctx.oblige("fused-task-raises-nothing", False, kind="ensures", detail=f"{e.tname}{e.eargs!r}"[:200], assume_after=False)
            return
        got = list(res) if c.cfg["gen"] else [res]
        # reference
        pr = {nm: (kf, fn) for nm, (kf, fn, _cfg) in c.preds.items()}
        args = [ref_value(kk, pr) for kk in meta["keyfn"].keys(coords)]
        if c.cfg["gen"]:
            want = [App(f"F_o#{i}", args) for i in range(2)]
        else:
            want = [App("F_o", args)]
        yield "fused-task-computes-the-composition", len(got) == len(want) and conj([term_eq(g, w) for g, w in zip(got, want)])
        yield "every-read-has-a-proxy", all(ok for _n, ok in reads)
        yield "no-read-of-a-fused-away-array", all(n not in pr for n, _ in reads)
        # per-source block counts
        exp = []
        for (s, _k, n) in opargs:
            if s in preds:
                exp.extend(n * m for (_x, _k2, m) in preds[s])
            else:
                exp.append(n)
        yield "num_input_blocks-is-the-per-source-product", tuple(fused.num_input_blocks) == tuple(exp)
        yield "outputs-are-the-consumer's", fused.writes_map is c.opspec.writes_map and tuple(fused.num_output_blocks) == tuple(c.opspec.num_output_blocks)


@register
class FuseLegacySpecs(FusionSpec):
    """fuse(op1, op2): the fused task computes F2(F1(blocks K1 asks for at K2(out)'s first argument))."""

    target = f"{PB}:fuse"
    name = f"{PB}:fuse[composition]"

    def configs(self, tier):
        return [dict(k1=k, k2=k2, n2=n2) for k in ("one", "list", "iter", "two") for (k2, n2) in (("one", 1), ("list", 1), ("iter", 1), ("list", 2), ("iter", 2))]

    def setup(self, c):
        k1 = c.cfg["k1"]
        a1 = [("s0", "one", 1), ("s1", "one", 1)] if k1 == "two" else [("s0", k1, 1 if k1 == "one" else 2)]
        op1, m1 = mk_sem_op(c, "a", [(A(s), k, n) for s, k, n in a1])
        op2, m2 = mk_sem_op(c, "b", [(A("a"), c.cfg["k2"], c.cfg["n2"])])
        c.assume(op1.num_tasks == op2.num_tasks)
        c.m1, c.m2, c.op1, c.op2 = m1, m2, op1, op2
        return (op1, op2), {}

    def ensures(self, c, a, k, res):
        it = c.interp
        coords = (c.ctx.fresh_int("k0", lo=0),)
        grs = it.world.lookup(f"{PB}:get_results_in_different_scope")
        S = it.world.summaries
        reads = []
        cfg = res.pipeline.config

        def get_chunk(it_, fn, a_, k_):
            in_key = a_[0]
            config = k_.get("config") if "config" in k_ else a_[1]
            reads.append((in_key.name, in_key.name in config.reads_map))
            return Read(in_key.name, tuple(in_key.coords))

        S[f"{PB}:get_chunk"] = get_chunk
        try:
            got = it.call(grs, [list(coords)], dict(config=cfg))
        except PyExc as e:
            c.ctx.oblige("fused-task-raises-nothing", False, kind="ensures", detail=f"{e.tname}{e.eargs!r}"[:200], assume_after=False)
            return
        pr = {A("a"): (c.m1["keyfn"], c.m1["fn"])}
        args = [ref_value(kk, pr) for kk in c.m2["keyfn"].keys(coords)]
        yield "fused-task-computes-the-composition", term_eq(got, App("F_b", args))
        yield "every-read-has-a-proxy", all(ok for _n, ok in reads)
        yield "writes-are-op2's", cfg.writes_map is c.op2.pipeline.config.writes_map
        n2 = c.cfg["n2"]
        yield "num_input_blocks", tuple(cfg.num_input_blocks) == tuple(n * n2 for n in c.op1.pipeline.config.num_input_blocks)
