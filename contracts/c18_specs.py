"""C18 — resource specs cannot be mixed silently; memory settings mean what they say
(cubed/core/array.py check_array_specs, cubed/spec.py, cubed/utils.py convert_to_bytes)."""
from __future__ import annotations

from pyvc.interp import IObj, Opaque
from pyvc.spec import FuncSpec, register
from pyvc.sym import PyExc

FIELDS = ("_work_dir", "_intermediate_store", "_allowed_mem", "_reserved_mem", "_executor", "_storage_options", "_zarr_compressor")


def tok_spec(c, label):
    """A Spec whose every compared field is an arbitrary value (modelled by an integer token; memory settings are
    non-negative ints). Two specs are `the same configuration' iff all seven tokens agree."""
    SpecCls = c.interp.world.lookup("cubed.spec:Spec")
    attrs = {}
    for f in FIELDS:
        attrs[f] = c.int(f"{label}{f}", lo=0 if "mem" in f else None)
    attrs["_executor_name"] = None
    attrs["_executor_options"] = None
    o = IObj(SpecCls, attrs)
    # `executor` is a cached_property: resolve to the stored executor token
    o.attrs["executor"] = attrs["_executor"]
    return o


def same(c, s1, s2):
    return c.And(*[s1.attrs[f] == s2.attrs[f] for f in FIELDS])


@register
class SpecEq(FuncSpec):
    """Spec.__eq__(other): True iff other is a Spec and work_dir, intermediate_store, allowed_mem, reserved_mem,
    executor, storage_options and zarr_compressor are all equal; False for non-Spec objects."""

    target = "cubed.spec:Spec.__eq__"
    props = ("C18",)

    def configs(self, tier):
        return [dict(other="spec"), dict(other="none"), dict(other="int")]

    def setup(self, c):
        s1 = tok_spec(c, "s1")
        if c.cfg["other"] == "spec":
            s2 = tok_spec(c, "s2")
        else:
            s2 = None if c.cfg["other"] == "none" else 5
        c.s = (s1, s2)
        return (s1, s2), {}

    def ensures(self, c, a, k, res):
        s1, s2 = c.s
        if c.cfg["other"] != "spec":
            yield "non-spec-is-unequal", res is False
        else:
            yield "equal-iff-all-fields-equal", c.Or(c.And(res, same(c, s1, s2)), c.And(c.Not(res), c.Not(same(c, s1, s2))))

    def replay(self, cfg, model, ob):
        if cfg["other"] != "spec":
            return None
        f = lambda lab: {x: model.get(f"{lab}{x}", 0) for x in FIELDS}
        return f"""
import cubed
def mk(t):
    return cubed.Spec(work_dir=f"/tmp/wd{{t['_work_dir']}}", intermediate_store=f"store{{t['_intermediate_store']}}",
                      allowed_mem=t['_allowed_mem'], reserved_mem=t['_reserved_mem'], executor=None,
                      storage_options={{"opt": t['_storage_options']}}, zarr_compressor={{"name": f"c{{t['_zarr_compressor']}}"}})
t1, t2 = {f('s1')!r}, {f('s2')!r}
t1['_executor'] = t2['_executor'] = 0
s1, s2 = mk(t1), mk(t2)
same = all(t1[k] == t2[k] for k in t1)
reproduced, detail = ((s1 == s2) != same), f"Spec.__eq__ -> {{s1 == s2}} for field tokens {{t1}} vs {{t2}}"
"""

    def canaries(self, c, a, k, res):
        if c.cfg["other"] == "spec":
            s1, s2 = c.s
            yield "canary:memory-settings-ignored", c.implies(c.And(*[s1.attrs[f] == s2.attrs[f] for f in FIELDS if "mem" not in f]), res)


class ArrLike:
    """Minimal array-like with a spec attribute (check_array_specs only touches .spec)."""

    def __init__(self, spec):
        self.spec = spec


@register
class CheckArraySpecs(FuncSpec):
    """check_array_specs(arrays): returns arrays[0].spec when all spec-carrying arguments have equal specs;
    raises ValueError iff some argument's spec differs from the first one's in any field."""

    target = "cubed.core.array:check_array_specs"
    props = ("C18",)

    def configs(self, tier):
        return [dict(k=1, plain=False), dict(k=2, plain=False), dict(k=3, plain=False), dict(k=2, plain=True)]

    def setup(self, c):
        specs = [tok_spec(c, f"s{i}") for i in range(c.cfg["k"])]
        arrays = [ArrLike(s) for s in specs]
        if c.cfg["plain"]:
            arrays.insert(1, 3.5)  # objects without a spec are ignored
        c.specs = specs
        return (tuple(arrays),), {}

    def ensures(self, c, a, k, res):
        specs = c.specs
        yield "returns-first-spec", res is specs[0]
        yield "returns-only-if-all-equal", c.And(*[same(c, specs[0], s) for s in specs[1:]])

    def raises(self, c, a, k, e):
        if e.etype is ValueError:
            specs = c.specs
            return c.Or(*[c.Not(same(c, specs[0], s)) for s in specs[1:]])
        return None

    def canaries(self, c, a, k, res):
        if len(c.specs) > 1:
            yield "canary:never-returns", False


@register
class ConvertToBytesNumeric(FuncSpec):
    pure_replay = True
    """convert_to_bytes(size) for numbers: ints pass through iff >= 0 (ValueError otherwise); integral floats are
    converted exactly, non-integral floats are rejected with ValueError."""

    target = "cubed.utils:convert_to_bytes"
    name = "cubed.utils:convert_to_bytes[numeric]"
    props = ("C18",)

    def configs(self, tier):
        return [dict(kind="int"), dict(kind="float")]

    def setup(self, c):
        if c.cfg["kind"] == "int":
            v = c.int("size")
        else:
            v = c.ctx.fresh_real("size")
            c.ctx.note_assumption("float argument modelled as an exact rational (is_integer / int() on it are exact)")
        c.v = v
        return (v,), {}

    def ensures(self, c, a, k, res):
        v = c.v
        if c.cfg["kind"] == "int":
            yield "identity-on-non-negative-ints", c.And(res == v, v >= 0)
        else:
            yield "exact-integral-value", c.And(res == v, v >= 0)

    def raises(self, c, a, k, e):
        if e.etype is not ValueError:
            return None
        v = c.v
        if c.cfg["kind"] == "int":
            return v < 0
        return c.Or(c.Not(v.is_integer()), v < 0)


@register
class SpecInit(FuncSpec):
    """Spec.__init__: reserved_mem defaults to 0; allowed_mem defaults to reserved_mem; both go through
    convert_to_bytes; the remaining settings are stored unchanged."""

    target = "cubed.spec:Spec.__init__"
    props = ("C18",)

    def configs(self, tier):
        return [dict(allowed=a, reserved=r) for a in (False, True) for r in (False, True)]

    def install(self, c):
        def ctb(it, fn, a, k):
            v = a[0]
            it.ctx.effect("convert_to_bytes", v)
            if isinstance(v, int) and v == 0:
                return 0
            if it.truth(v < 0):
                raise PyExc(ValueError, ("Must be a positive value",))
            return v

        c.interp.world.summaries["cubed.utils:convert_to_bytes"] = ctb

    def setup(self, c):
        SpecCls = c.interp.world.lookup("cubed.spec:Spec")
        obj = IObj(SpecCls, {})
        kw = {}
        if c.cfg["allowed"]:
            kw["allowed_mem"] = c.int("allowed")
        if c.cfg["reserved"]:
            kw["reserved_mem"] = c.int("reserved")
        kw["work_dir"] = Opaque("wd")
        kw["zarr_compressor"] = Opaque("comp")
        c.obj, c.kw = obj, kw
        return (obj,), kw

    def ensures(self, c, a, k, res):
        o, kw = c.obj, c.kw
        r = kw.get("reserved_mem", 0)
        yield "reserved", o.attrs["_reserved_mem"] == r
        yield "allowed-defaults-to-reserved", o.attrs["_allowed_mem"] == (kw["allowed_mem"] if "allowed_mem" in kw else r)
        yield "work_dir-stored", o.attrs["_work_dir"] is kw["work_dir"]
        yield "compressor-stored", o.attrs["_zarr_compressor"] is kw["zarr_compressor"]

    def raises(self, c, a, k, e):
        if e.etype is ValueError:
            kw = c.kw
            return c.Or(*([kw["allowed_mem"] < 0] if "allowed_mem" in kw else []), *([kw["reserved_mem"] < 0] if "reserved_mem" in kw else []))
        return None
