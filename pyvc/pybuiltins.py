"""Builtins as seen by interpreted code: the real builtin unless a symbolic operand needs help."""
from __future__ import annotations

import builtins as _bi
import collections.abc as cabc
import functools
import numbers

import z3

from . import sym
from .sym import PyExc, SBool, SInt, SReal, Unsupported, deep_sym, tb, tz, wrap
from .symseq import ConstSeq, EnumSeq, Grid, MapSeq, SymHashSet, SymRange, SymSeq, ZipSeq


def install(interp):
    from .interp import (BoundMethod, Closure, GenList, IClass, IExcValue, IObj, Opaque)
    from .source import ExternalStub

    B = interp.builtins

    def py_len(x):
        h = getattr(type(x), "_pyvc_len", None)
        if h is not None:
            return h(x, interp)
        if isinstance(x, IObj):
            m, _ = x.cls.lookup("__len__")
            if m is None:
                raise PyExc(TypeError, (f"object of type {x.cls.name!r} has no len()",))
            return interp.call(m, [x], {})
        if isinstance(x, GenList):
            raise PyExc(TypeError, ("object of type 'generator' has no len()",))
        try:
            return len(x)
        except TypeError as e:
            raise PyExc(TypeError, e.args)

    def _dunder(x, *names):
        """implicit conversion of an interpreted object: dispatch to its special method (None: not defined)"""
        if isinstance(x, IObj):
            for nm in names:
                m, _ = x.cls.lookup(nm)
                if m is not None:
                    return (interp.call(m, [x], {}),)
            raise PyExc(TypeError, (f"conversion of {x.cls.name!r} object: no {names[0]}",))
        return None

    def py_int(x=0, *a):
        if isinstance(x, SInt):
            return x
        r = _dunder(x, "__int__", "__index__", "__trunc__")
        if r is not None:
            return r[0]
        if isinstance(x, SBool):
            return wrap(tz(x))
        if isinstance(x, SReal):
            return x.__trunc__()
        h = getattr(type(x), "_pyvc_int", None)
        if h is not None:
            return h(x, interp)
        try:
            return int(x, *a)
        except (TypeError, ValueError) as e:
            raise PyExc(type(e), e.args)

    def py_float(x=0.0):
        if isinstance(x, SInt):
            return wrap(z3.ToReal(x.t))
        r = _dunder(x, "__float__", "__index__")
        if r is not None:
            return r[0]
        if isinstance(x, SReal):
            return x
        h = getattr(type(x), "_pyvc_float", None)
        if h is not None:
            return h(x, interp)
        try:
            return float(x)
        except (TypeError, ValueError) as e:
            raise PyExc(type(e), e.args)

    def py_bool(x=False):
        if isinstance(x, SBool):
            return x
        if isinstance(x, (SInt, SReal)):
            return wrap(x.t != 0)
        return interp.truth(x)

    def _isinst1(v, c):
        if isinstance(c, TypeAlias):
            c = c.real
        if isinstance(c, IClass):
            if isinstance(v, IObj):
                return c in v.cls.mro()
            isa = getattr(v, "_isa", None)
            if isa is not None:
                return c.qual in isa
            return False
        if isinstance(c, ExternalStub):
            isa = getattr(v, "_isa", None)
            return isa is not None and c._qual in isa
        if c is None:
            return False
        if not isinstance(c, type) and not hasattr(c, "__instancecheck__"):
            if getattr(c, "__origin__", None) is not None:
                c = c.__origin__
            else:
                raise PyExc(TypeError, ("isinstance() arg 2 must be a type",))
        if isinstance(v, SInt):
            return issubclass(int, c) if isinstance(c, type) else isinstance(0, c)
        if isinstance(v, SBool):
            return isinstance(True, c)
        if isinstance(v, SReal):
            return isinstance(0.5, c)
        if isinstance(v, SymHashSet):
            return isinstance(set(), c)
        if isinstance(v, SymSeq):
            proto = [] if v.is_list else ()
            if v.lazy:
                return c in (cabc.Iterator, cabc.Iterable)
            return isinstance(proto, c)
        if isinstance(v, IObj):
            nb = [b for k in v.cls.mro() for b in k.bases if isinstance(b, type)]
            if c is object:
                return True
            if c in (cabc.Iterable,):
                return v.cls.lookup("__iter__")[0] is not None
            if c in (cabc.Iterator,):
                return v.cls.lookup("__next__")[0] is not None
            if c in (cabc.Callable,):
                return v.cls.lookup("__call__")[0] is not None
            return any(issubclass(b, c) for b in nb)
        if isinstance(v, (Closure, BoundMethod)):
            return c in (cabc.Callable, object)
        if isinstance(v, IExcValue):
            return isinstance(v.etype, type) and issubclass(v.etype, c)
        if isinstance(v, Opaque):
            isa = getattr(v, "_isa_native", ())
            return any(issubclass(t, c) for t in isa) if isinstance(c, type) else False
        return isinstance(v, c)

    def py_isinstance(v, cls):
        if isinstance(cls, tuple):
            return any(py_isinstance(v, c) for c in cls)
        if isinstance(cls, type(int | str)):
            return any(py_isinstance(v, c) for c in cls.__args__)
        return _isinst1(v, cls)

    def py_issubclass(a, b):
        if isinstance(a, IClass):
            if isinstance(b, IClass):
                return b in a.mro()
            if isinstance(b, tuple):
                return any(py_issubclass(a, x) for x in b)
            nb = a.native_exc_base()
            return nb is not None and isinstance(b, type) and issubclass(nb, b)
        if isinstance(b, IClass):
            return False
        return issubclass(a, b)

    def py_hasattr(v, name):
        return interp.hasattr_(v, name)

    _missing = object()

    def py_getattr(v, name, default=_missing):
        try:
            return interp.getattr_(v, name)
        except PyExc as e:
            if e.etype is AttributeError and default is not _missing:
                return default
            raise

    def py_setattr(v, name, value):
        interp.setattr_(v, name, value)

    def py_range(*a):
        if deep_sym(a):
            if len(a) == 1:
                # a bound the path condition pins to 0 or 1 gives an ordinary range (symbolic-length machinery is not
                # needed for what is in fact a single element)
                for v in (1, 0):
                    if interp.ctx.quick_entails(tz(a[0]) == v):
                        return range(v)
                return SymRange(0, a[0])
            if len(a) == 2:
                return SymRange(a[0], a[1])
            raise Unsupported("symbolic range with a step")
        try:
            return range(*a)
        except (TypeError, ValueError) as e:
            raise PyExc(type(e), e.args)

    def py_tuple(x=()):
        if isinstance(x, SymSeq):
            if x.concrete_len():
                return tuple(x._pyvc_iter(interp))
            if x.is_list or x.lazy:
                import copy

                y = copy.copy(x)
                y.is_list = False
                y.lazy = False
                return y
            return x
        return tuple(interp.iterate(x))

    def py_list(x=()):
        if isinstance(x, SymSeq):
            if x.concrete_len():
                return list(x._pyvc_iter(interp))
            import copy

            y = copy.copy(x)
            y.is_list = True
            y.lazy = False
            return y
        return list(interp.iterate(x))

    def py_iter(x, *a):
        if isinstance(x, SymSeq) and not x.concrete_len():
            import copy

            y = copy.copy(x)
            y.lazy = True
            return y
        if isinstance(x, (tuple, list)):
            return GenList(x)
        if isinstance(x, IObj):
            m, _ = x.cls.lookup("__iter__")
            if m is None:
                raise PyExc(TypeError, (f"{x.cls.name!r} object is not iterable",))
            r = interp.call(m, [x], {})
            if isinstance(r, SymSeq) and not r.concrete_len():
                return r
            return GenList(interp.iterate(r))
        return iter(x)

    def py_next(it, *default):
        try:
            if isinstance(it, IObj):
                m, _ = it.cls.lookup("__next__")
                return interp.call(m, [it], {})
            h = getattr(type(it), "_pyvc_next", None)
            if h is not None:
                return h(it, interp, *default)
            return next(it)
        except StopIteration:
            if default:
                return default[0]
            raise PyExc(StopIteration, ())

    def _agg(name, native):
        def f(*args, **kw):
            if len(args) == 1 and isinstance(args[0], SymSeq) and not args[0].concrete_len():
                s = args[0]
                if name == "sum":
                    return s.total(interp)
                if name == "max":
                    if "default" in kw and interp.truth(s.length() == 0):
                        return kw["default"]
                    return s.maxv(interp)
                raise Unsupported(f"{name}() of a symbolic-length sequence")
            if len(args) == 1 and not kw and name in ("min", "max"):
                items = list(interp.iterate(args[0]))
                if not items:
                    raise PyExc(ValueError, (f"{name}() arg is an empty sequence",))
                args = (items,)
            elif len(args) == 1:
                args = (list(interp.iterate(args[0])),)
            key = kw.get("key")
            if key is not None and not isinstance(key, type(len)):
                kw = dict(kw)
                kw["key"] = lambda x, _k=key: interp.call(_k, [x], {})
            try:
                return native(*args, **kw)
            except (TypeError, ValueError) as e:
                if deep_sym(args):
                    raise Unsupported(f"{name}: {e}")
                raise PyExc(type(e), e.args)

        return f

    def py_sum(x, start=0):
        if isinstance(x, SymSeq) and not x.concrete_len():
            return x.total(interp) + start
        acc = start
        for v in interp.iterate(x):
            acc = interp.binop(__import__("operator").add, acc, v)
        return acc

    def _representatives(x):
        """elements of a symbolic-length mapped sequence that represent all of its elements (None: not available)"""
        from .symseq import MapSeq

        if isinstance(x, MapSeq) and not x.concrete_len():
            h = getattr(x.src, "rep_indices", None)
            if h is not None:
                n = x.src.length()
                out = []
                for i in h(interp):
                    if interp.truth(wrap(z3.And(tz(i) >= 0, tz(i) < tz(n)))):
                        out.append(x.get(interp, i))
                return out
        return None

    def py_all(x):
        reps = _representatives(x)
        for v in (reps if reps is not None else interp.iterate(x)):
            if not interp.truth(v):
                return False
        return True

    def py_any(x):
        reps = _representatives(x)
        for v in (reps if reps is not None else interp.iterate(x)):
            if interp.truth(v):
                return True
        return False

    def py_sorted(x, key=None, reverse=False):
        items = list(interp.iterate(x))
        k = None if key is None else (lambda v: interp.call(key, [v], {}))
        try:
            return sorted(items, key=k, reverse=reverse)
        except TypeError as e:
            raise PyExc(TypeError, e.args)

    def py_zip(*its, strict=False):
        if any(isinstance(i, SymSeq) and not i.concrete_len() for i in its):
            seqs = [i if isinstance(i, SymSeq) else ConstSeq(tuple(interp.iterate(i))) for i in its]
            lens = [s.length() for s in seqs]
            n = lens[0]
            for l2 in lens[1:]:
                if strict:
                    if interp.truth(n != l2):
                        raise PyExc(ValueError, ("zip() arguments have different lengths",))
                else:
                    n = wrap(z3.If(tz(l2) < tz(n), tz(l2), tz(n)))
            z = ZipSeq(seqs, n)
            z.lazy = True
            return z
        lists = [list(interp.iterate(i)) for i in its]
        if strict and len({len(x) for x in lists}) > 1:
            raise PyExc(ValueError, ("zip() arguments have different lengths",))
        return GenList(zip(*lists))

    def py_enumerate(it, start=0):
        if isinstance(it, SymSeq) and not it.concrete_len():
            e = EnumSeq(it, start)
            e.lazy = True
            return e
        return GenList(enumerate(list(interp.iterate(it)), start))

    def py_map(f, *its):
        if len(its) == 1 and isinstance(its[0], SymSeq) and not its[0].concrete_len():
            return MapSeq.make(interp, its[0], lambda x: interp.call(f, [x], {}), lazy=True)
        lists = [list(interp.iterate(i)) for i in its]
        return GenList([interp.call(f, list(xs), {}) for xs in zip(*lists)])

    def py_filter(f, it):
        return GenList([x for x in interp.iterate(it) if interp.truth(x if f is None else interp.call(f, [x], {}))])

    def py_type(v, *a):
        if a:
            raise Unsupported("3-argument type()")
        if isinstance(v, IObj):
            return v.cls
        if isinstance(v, SInt):
            return int
        if isinstance(v, SBool):
            return bool
        if isinstance(v, SReal):
            return float
        if isinstance(v, SymSeq):
            return list if v.is_list else tuple
        if isinstance(v, SymHashSet):
            return set
        return type(v)

    def py_callable(v):
        if isinstance(v, IObj):
            return v.cls.lookup("__call__")[0] is not None
        return callable(v)

    def py_print(*a, **k):
        return None

    def py_abs(x):
        return abs(x)

    def py_round(x, n=None):
        if isinstance(x, SReal):
            raise Unsupported("round() of symbolic real")
        return round(x, n) if n is not None else round(x)

    def py_dict(*a, **k):
        if not a:
            from .interp import SymKeyDict

            return SymKeyDict(**k)
        if a and isinstance(a[0], IObj):
            raise Unsupported("dict(IObj)")
        if a and isinstance(a[0], GenList):
            return dict(list(a[0]), **k)
        if a and isinstance(a[0], SymSeq) and not a[0].concrete_len():
            raise Unsupported("dict() of symbolic-length sequence")
        return dict(*a, **k)

    def py_set(x=()):
        h = getattr(type(x), "_pyvc_toset", None)
        if h is not None:
            return h(x, interp)
        return interp.make_set(interp.iterate(x))

    def py_reversed(x):
        if isinstance(x, SymSeq):
            return x.slice(interp, slice(None, None, -1))
        return GenList(list(reversed(list(interp.iterate(x)) if not isinstance(x, (list, tuple, range)) else x)))

    def py_id(x):
        return id(x)

    def py_str(x=""):
        if deep_sym(x):
            return "<sym>"
        return str(x)

    def py_repr(x):
        if deep_sym(x):
            return "<sym>"
        return repr(x)

    def py_divmod(a, b):
        return (interp.binop(__import__("operator").floordiv, a, b), interp.binop(__import__("operator").mod, a, b))

    B.update(
        len=py_len, int=py_int, float=py_float, bool=py_bool, isinstance=py_isinstance, issubclass=py_issubclass,
        hasattr=py_hasattr, getattr=py_getattr, setattr=py_setattr, range=py_range, tuple=py_tuple, list=py_list,
        iter=py_iter, next=py_next, min=_agg("min", min), max=_agg("max", max), sum=py_sum, all=py_all, any=py_any,
        sorted=py_sorted, zip=py_zip, enumerate=py_enumerate, map=py_map, filter=py_filter, type=py_type,
        callable=py_callable, print=py_print, abs=py_abs, round=py_round, dict=py_dict, set=py_set,
        reversed=py_reversed, id=py_id, str=py_str, repr=py_repr, divmod=py_divmod,
    )
    # keep identity of classes used in isinstance checks: int/float/str/... stay the real types when used as types.
    # (py_int etc. replace the *callables*; isinstance(x, int) must still see the type) -> handled by TypeAlias below
    for nm, real in (("int", int), ("float", float), ("bool", bool), ("tuple", tuple), ("list", list), ("dict", dict),
                     ("set", set), ("str", str), ("type", type), ("range", range)):
        B[nm] = TypeAlias(real, B[nm])

    # natives from modules that need symbolic-aware versions --------------------
    NO = interp.world.native_overrides

    def isgenfn(f):
        while isinstance(f, functools.partial):
            f = f.func
        if isinstance(f, BoundMethod):
            f = f.fn
        if isinstance(f, Closure):
            return f.is_gen
        g = getattr(f, "_pyvc_is_gen", None)
        if g is not None:
            return g
        import inspect

        return inspect.isgeneratorfunction(f)

    NO["inspect.isgeneratorfunction"] = isgenfn

    def copy_copy(x):
        import copy

        if isinstance(x, IObj):
            return IObj(x.cls, dict(x.attrs))
        h = getattr(type(x), "_pyvc_copy", None)
        if h is not None:
            return h(x, interp)
        return copy.copy(x)

    NO["copy.copy"] = copy_copy

    def dc_replace(obj, **changes):
        if isinstance(obj, IObj):
            attrs = dict(obj.attrs)
            attrs.update(changes)
            return IObj(obj.cls, attrs)
        import dataclasses

        return dataclasses.replace(obj, **changes)

    NO["dataclasses.replace"] = dc_replace

    def math_prod(it, start=1):
        acc = start
        for v in interp.iterate(it):
            acc = acc * v
        return acc

    NO["math.prod"] = math_prod

    def op_index(x):
        if isinstance(x, SInt):
            return x
        r = _dunder(x, "__index__")
        if r is not None:
            return r[0]
        import operator

        try:
            return operator.index(x)
        except TypeError as e:
            raise PyExc(TypeError, e.args)

    NO["operator.index"] = op_index
    NO["_operator.index"] = op_index

    def math_ceil(x):
        if isinstance(x, (SInt, SReal)):
            return x.__ceil__()
        r = _dunder(x, "__ceil__", "__float__", "__index__")
        if r is not None:
            return math_ceil(r[0])
        import math

        return math.ceil(x)

    def math_floor(x):
        if isinstance(x, (SInt, SReal)):
            return x.__floor__()
        r = _dunder(x, "__floor__", "__float__", "__index__")
        if r is not None:
            return math_floor(r[0])
        import math

        return math.floor(x)

    def it_accumulate(seq, func=None, *, initial=None):
        """itertools.accumulate over a chunk grid with operator.add: closed-form prefix sums (assumed contract of
        accumulate; the step lemma prefix(k+1) == prefix(k) + get(k) is proved per run)"""
        import itertools
        import operator

        from .symseq import Grid, OffsetPrefixSeq

        if isinstance(seq, Grid) and not seq.concrete_len() and func is operator.add and initial is not None:
            interp.ctx.note_assumption("itertools.accumulate(grid, add, initial=o)[k] == o + sum of the first k elements")
            return OffsetPrefixSeq(seq, initial)
        args = [seq] + ([func] if func is not None else [])
        return itertools.accumulate(*args, initial=initial)

    NO["itertools.accumulate"] = it_accumulate

    NO["math.ceil"] = math_ceil
    NO["math.floor"] = math_floor

    def f_reduce(f, it, *init):
        items = list(interp.iterate(it))
        if init:
            acc = init[0]
        else:
            if not items:
                raise PyExc(TypeError, ("reduce() of empty iterable with no initial value",))
            acc = items.pop(0)
        for v in items:
            acc = interp.call(f, [acc, v], {})
        return acc

    def np_isnan(x):
        if isinstance(x, (SInt, SBool)) or isinstance(x, int):
            return False
        if isinstance(x, SReal):
            return False
        import numpy as np

        return np.isnan(x)

    def it_product(*its, repeat=1):
        import itertools

        if repeat == 1 and any(isinstance(i, SymSeq) and not i.concrete_len() for i in its):
            from .symseq import ProductSeq

            return ProductSeq([i if isinstance(i, SymSeq) else ConstSeq(tuple(interp.iterate(i))) for i in its])
        return itertools.product(*[list(interp.iterate(i)) for i in its], repeat=repeat)

    NO["itertools.product"] = it_product
    NO["numpy.isnan"] = np_isnan
    NO["functools.reduce"] = f_reduce
    NO["_functools.reduce"] = f_reduce


class TypeAlias:
    """A builtin type name as seen by interpreted code: *calling* it goes to the symbolic-aware
    constructor, using it as a type (isinstance, `is`, equality, attribute access) sees the real type."""

    def __init__(self, real, ctor):
        self.real = real
        self.ctor = ctor
        self.__name__ = real.__name__

    def __call__(self, *a, **k):
        return self.ctor(*a, **k)

    def __instancecheck__(self, inst):
        return isinstance(inst, self.real)

    def __eq__(self, o):
        return o is self.real or (isinstance(o, TypeAlias) and o.real is self.real)

    def __hash__(self):
        return hash(self.real)

    def __getattr__(self, name):
        return getattr(self.real, name)

    def __or__(self, o):
        return self.real | (o.real if isinstance(o, TypeAlias) else o)

    def __ror__(self, o):
        return (o.real if isinstance(o, TypeAlias) else o) | self.real

    def __getitem__(self, item):
        return self.real

    def __repr__(self):
        return f"<type {self.real.__name__}>"
