"""Native replay for the memory contracts (C03): a real reduction is computed in-process with the single-threaded
executor under tracemalloc; the traced peak of every task is compared with the projected_mem of its operation
(reserved_mem = 0, so projected_mem is the whole budget for array data)."""
import gc
import os
import shutil
import tempfile
import tracemalloc


def run_reduction_memory_case(rows_per_chunk=2, widen=True, init=True, ndim=2, cols=400_000, num_chunks=4):
    import numpy as np

    import cubed
    import cubed.array_api as xp
    from cubed.runtime.create import create_executor
    from cubed.runtime.types import Callback

    class Peaks(Callback):
        def __init__(self):
            self.peaks, self.projected = {}, {}

        def _reset(self):
            gc.collect()
            tracemalloc.reset_peak()
            self.base = tracemalloc.get_traced_memory()[0]

        def on_compute_start(self, event):
            for name, node in event.dag.nodes(data=True):
                op = node.get("primitive_op")
                if op is not None:
                    self.projected[name] = op.projected_mem

        def on_operation_start(self, event):
            self._reset()

        def on_task_end(self, event):
            _, peak = tracemalloc.get_traced_memory()
            self.peaks[event.name] = max(self.peaks.get(event.name, 0), peak - self.base)
            self._reset()

    tmp = tempfile.mkdtemp(prefix="pyvc-replay-")
    try:
        spec = cubed.Spec(tmp, allowed_mem="4GB", reserved_mem=0, zarr_compressor=None)
        dt = xp.int8 if widen else xp.int64
        shape = (rows_per_chunk * num_chunks, cols) if ndim == 2 else (rows_per_chunk * num_chunks * cols,)
        chunks = (rows_per_chunk, cols) if ndim == 2 else (rows_per_chunk * cols,)
        src = os.path.join(tmp, "src.zarr")
        cubed.to_zarr(xp.ones(shape, dtype=dt, chunks=chunks, spec=spec), src)
        a = cubed.from_zarr(src, spec=spec)
        s = xp.sum(a, axis=0)
        over = []
        seen = []
        # init=True: the fused plan (initial function inside the first partial reduction); init=False: unfused
        for optimize_graph in ((True,) if init else (False,)):
            cb = Peaks()
            tracemalloc.start()
            try:
                s.compute(executor=create_executor("single-threaded"), callbacks=[cb], optimize_graph=optimize_graph)
            finally:
                tracemalloc.stop()
            for name, peak in cb.peaks.items():
                if name == "create-arrays":
                    continue
                seen.append((name, peak, cb.projected[name]))
                if peak > cb.projected[name]:
                    over.append(f"{name}: traced peak {peak} > projected_mem {cb.projected[name]} (+{peak - cb.projected[name]} bytes)")
        if over:
            return True, f"sum over axis 0 of {shape} {np.dtype(dt).name} in chunks {chunks}: " + "; ".join(over)
        return False, f"all tasks within projected memory: {seen}"
    finally:
        shutil.rmtree(tmp, ignore_errors=True)
