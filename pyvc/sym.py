"""Symbolic values and the per-path verification context.

Symbolic scalars overload Python's operators so that *native* Python code
(builtins such as min/max/sum/sorted, tuple comparison, itertools plumbing) can run
on them unchanged; the only thing native code cannot do on its own is *branch* on a
symbolic truth value, and that is routed to the path context (`SBool.__bool__` ->
`PathCtx.branch`), which explores both sides by re-execution under a decision prefix.
"""
from __future__ import annotations

import time
from fractions import Fraction

import z3

# ---------------------------------------------------------------------------
# exceptions used by the engine


class Unsupported(Exception):
    """Engine limitation: the construct is outside the modelled subset -> undecided."""


class PathInfeasible(Exception):
    """The path condition became unsatisfiable: abandon this path silently."""


class PathEnd(Exception):
    """This path only existed to explore a fork inside a scoped (generic-element) block; the block is done and
    everything after it is covered by the sibling path."""


class PathBudget(Exception):
    """Path budget exhausted -> undecided (never 'proved')."""


class PyExc(Exception):
    """An exception raised by the *interpreted* program (abrupt outcome with a type)."""

    def __init__(self, etype, args=(), where=None, value=None):
        super().__init__(getattr(etype, "__name__", str(etype)), args)
        self.etype = etype
        self.eargs = tuple(args)
        self.where = where
        self.value = value  # interpreted exception instance, if any

    @property
    def tname(self):
        q = getattr(self.etype, "_qual", None)
        if q is not None:
            return q.split(".")[-1]
        return getattr(self.etype, "__name__", None) or getattr(self.etype, "name", str(self.etype))


# ---------------------------------------------------------------------------
# the current path context (one per path execution, set by spec.explore)

import os as _os

_DUMPN = 0
_FORKS = {} if _os.environ.get("PYVC_FORKS") else None
_SLOW = float(_os.environ.get("PYVC_SLOW", "0") or 0)
CUR: "PathCtx | None" = None


def cur() -> "PathCtx":
    if CUR is None:
        raise Unsupported("symbolic value used outside a path context")
    return CUR


def set_cur(ctx):
    global CUR
    CUR = ctx


# ---------------------------------------------------------------------------
# conversion helpers


def is_sym(v):
    return isinstance(v, (SInt, SBool, SReal))


def deep_sym(v, depth=0):
    """Does a (possibly nested) python value contain a symbolic scalar?"""
    if is_sym(v) or getattr(v, "_pyvc_symbolic", False):
        return True
    if depth > 4:
        return False
    if isinstance(v, (tuple, list, set, frozenset)):
        return any(deep_sym(x, depth + 1) for x in v)
    if isinstance(v, dict):
        return any(deep_sym(x, depth + 1) for x in v.values()) or any(deep_sym(x, depth + 1) for x in v.keys())
    if isinstance(v, slice):
        return deep_sym((v.start, v.stop, v.step), depth + 1)
    return False


def tz(v):
    """python/symbolic number -> z3 arithmetic term (Int or Real sort)."""
    if isinstance(v, SInt) or isinstance(v, SReal):
        return v.t
    if isinstance(v, z3.ArithRef):
        return v
    if isinstance(v, SBool):
        return z3.If(v.t, z3.IntVal(1), z3.IntVal(0))
    if isinstance(v, bool):
        return z3.IntVal(int(v))
    if isinstance(v, int):
        return z3.IntVal(v)
    if isinstance(v, float):
        if v != v or v in (float("inf"), float("-inf")):
            raise Unsupported("non-finite float in symbolic arithmetic")
        fr = Fraction(v)  # exact value of the double
        return z3.RealVal(f"{fr.numerator}/{fr.denominator}")
    if isinstance(v, Fraction):
        return z3.RealVal(f"{v.numerator}/{v.denominator}")
    if hasattr(v, "dtype") and hasattr(v, "item") and getattr(v, "shape", None) == ():
        return tz(v.item())  # numpy scalar
    raise Unsupported(f"cannot convert {type(v).__name__} to a term")


def tb(v):
    """python/symbolic truth value -> z3 Bool term (no branching)."""
    if isinstance(v, SBool):
        return v.t
    if isinstance(v, bool):
        return z3.BoolVal(v)
    if isinstance(v, SInt) or isinstance(v, SReal):
        return v.t != 0
    if isinstance(v, z3.BoolRef):
        return v
    if v is None:
        return z3.BoolVal(False)
    if isinstance(v, int):
        return z3.BoolVal(v != 0)
    raise Unsupported(f"cannot convert {type(v).__name__} to a Bool term")


def _is_real(t):
    return t.sort().kind() == z3.Z3_REAL_SORT


def _arith2(a, b):
    ta, tb_ = tz(a), tz(b)
    if _is_real(ta) or _is_real(tb_):
        if not _is_real(ta):
            ta = z3.ToReal(ta)
        if not _is_real(tb_):
            tb_ = z3.ToReal(tb_)
        return ta, tb_, True
    return ta, tb_, False


_WRAP_CACHE: dict = {}


def wrap(t):
    """z3 term -> symbolic python value (constants become native python values)."""
    key = t.get_id()
    hit = _WRAP_CACHE.get(key)
    if hit is not None:
        return hit[1]
    v = _wrap(t)
    if len(_WRAP_CACHE) > 200000:
        _WRAP_CACHE.clear()
    _WRAP_CACHE[key] = (t, v)  # keep t alive so the id is not reused
    return v


def _wrap(t):
    t = z3.simplify(t)
    if z3.is_int_value(t):
        return t.as_long()
    if z3.is_true(t):
        return True
    if z3.is_false(t):
        return False
    if z3.is_rational_value(t):
        fr = Fraction(t.numerator_as_long(), t.denominator_as_long())
        return SReal(t)
    k = t.sort().kind()
    if k == z3.Z3_INT_SORT:
        return SInt(t)
    if k == z3.Z3_REAL_SORT:
        return SReal(t)
    if k == z3.Z3_BOOL_SORT:
        return SBool(t)
    raise Unsupported(f"wrap: sort {t.sort()}")


_NUM = (int, float, Fraction)


def _numlike(o):
    return isinstance(o, (SInt, SReal, SBool)) or (isinstance(o, _NUM)) or (
        hasattr(o, "dtype") and getattr(o, "shape", None) == ()
    )


class _SNum:
    _pyvc_symbolic = True
    __slots__ = ("t",)

    def __init__(self, t):
        self.t = t

    # arithmetic -----------------------------------------------------------
    def __add__(self, o):
        if not _numlike(o):
            return NotImplemented
        a, b, _ = _arith2(self, o)
        return wrap(a + b)

    def __radd__(self, o):
        if not _numlike(o):
            return NotImplemented
        a, b, _ = _arith2(o, self)
        return wrap(a + b)

    def __sub__(self, o):
        if not _numlike(o):
            return NotImplemented
        a, b, _ = _arith2(self, o)
        return wrap(a - b)

    def __rsub__(self, o):
        if not _numlike(o):
            return NotImplemented
        a, b, _ = _arith2(o, self)
        return wrap(a - b)

    def __mul__(self, o):
        if not _numlike(o):
            return NotImplemented  # e.g. tuple * SInt handled by the interpreter
        a, b, _ = _arith2(self, o)
        return wrap(a * b)

    def __rmul__(self, o):
        if not _numlike(o):
            return NotImplemented
        a, b, _ = _arith2(o, self)
        return wrap(a * b)

    def __neg__(self):
        return wrap(-self.t)

    def __pos__(self):
        return self

    def __abs__(self):
        return wrap(z3.If(self.t >= 0, self.t, -self.t))

    def __truediv__(self, o):
        if not _numlike(o):
            return NotImplemented
        return _truediv(self, o)

    def __rtruediv__(self, o):
        if not _numlike(o):
            return NotImplemented
        return _truediv(o, self)

    def __floordiv__(self, o):
        if not _numlike(o):
            return NotImplemented
        return _floordiv(self, o)

    def __rfloordiv__(self, o):
        if not _numlike(o):
            return NotImplemented
        return _floordiv(o, self)

    def __mod__(self, o):
        if not _numlike(o):
            return NotImplemented
        return _mod(self, o)

    def __rmod__(self, o):
        if not _numlike(o):
            return NotImplemented
        return _mod(o, self)

    def __divmod__(self, o):
        return (_floordiv(self, o), _mod(self, o))

    def __rdivmod__(self, o):
        return (_floordiv(o, self), _mod(o, self))

    def __pow__(self, o):
        if isinstance(o, int) and 0 <= o <= 4:
            r = 1
            for _ in range(o):
                r = r * self
            return r
        raise Unsupported("symbolic ** is not modelled")

    def __rpow__(self, o):
        raise Unsupported("symbolic exponent is not modelled")

    # comparisons ----------------------------------------------------------
    def _cmp(self, o, op):
        if not _numlike(o):
            return NotImplemented
        a, b, _ = _arith2(self, o)
        return wrap(op(a, b))

    def __lt__(self, o):
        return self._cmp(o, lambda a, b: a < b)

    def __le__(self, o):
        return self._cmp(o, lambda a, b: a <= b)

    def __gt__(self, o):
        return self._cmp(o, lambda a, b: a > b)

    def __ge__(self, o):
        return self._cmp(o, lambda a, b: a >= b)

    def __eq__(self, o):
        if not _numlike(o):
            return False
        a, b, _ = _arith2(self, o)
        return wrap(a == b)

    def __ne__(self, o):
        if not _numlike(o):
            return True
        a, b, _ = _arith2(self, o)
        return wrap(a != b)

    def __hash__(self):
        raise Unsupported("symbolic number used as a dict key / set element")

    def __bool__(self):
        return cur().branch(self.t != 0)

    def __index__(self):
        raise Unsupported("symbolic integer used where a concrete index/int is required natively")

    def __repr__(self):
        return f"<{type(self).__name__} {self.t}>"

    def __format__(self, spec):
        return "<sym>"

    def __str__(self):
        return "<sym>"


class SInt(_SNum):
    __slots__ = ()

    def __int__(self):
        raise Unsupported("int() of a symbolic integer must go through the interpreter")

    def __floor__(self):
        return self

    def __ceil__(self):
        return self

    def __round__(self, n=None):
        return self

    def __trunc__(self):
        return self

    def is_integer(self):
        return True

    @property
    def real(self):
        return self

    def __lshift__(self, o):
        raise Unsupported("symbolic <<")

    def __and__(self, o):
        raise Unsupported("symbolic &")


class SReal(_SNum):
    """Exact rational arithmetic standing in for Python floats (assumption recorded)."""

    __slots__ = ()

    def __floor__(self):
        cur().note_assumption("float arithmetic treated as exact rational arithmetic (math.floor site)")
        return wrap(z3.ToInt(self.t))

    def __ceil__(self):
        cur().note_assumption("float arithmetic treated as exact rational arithmetic (math.ceil site)")
        return wrap(-z3.ToInt(-self.t))

    def __trunc__(self):
        return wrap(z3.If(self.t >= 0, z3.ToInt(self.t), -z3.ToInt(-self.t)))

    def is_integer(self):
        return wrap(z3.ToReal(z3.ToInt(self.t)) == self.t)

    def __int__(self):
        raise Unsupported("int() of a symbolic real must go through the interpreter")

    def __float__(self):
        raise Unsupported("float() of a symbolic real natively")


class SBool:
    _pyvc_symbolic = True
    __slots__ = ("t",)

    def __init__(self, t):
        self.t = t

    def __bool__(self):
        return cur().branch(self.t)

    def __and__(self, o):
        return wrap(z3.And(self.t, tb(o)))

    __rand__ = __and__

    def __or__(self, o):
        return wrap(z3.Or(self.t, tb(o)))

    __ror__ = __or__

    def __invert__(self):
        return wrap(z3.Not(self.t))

    def __eq__(self, o):
        if isinstance(o, (SBool, bool)):
            return wrap(self.t == tb(o))
        if isinstance(o, (int, SInt)):
            return wrap(tz(self) == tz(o))
        return False

    def __ne__(self, o):
        r = self.__eq__(o)
        if isinstance(r, SBool):
            return wrap(z3.Not(r.t))
        return not r

    def __hash__(self):
        raise Unsupported("symbolic bool used as a dict key")

    # bools are ints in python
    def __add__(self, o):
        return wrap(tz(self) + tz(o))

    __radd__ = __add__

    def __mul__(self, o):
        if not _numlike(o):
            return NotImplemented
        return wrap(tz(self) * tz(o))

    __rmul__ = __mul__

    def __index__(self):
        raise Unsupported("symbolic bool used as an index")

    def __repr__(self):
        return f"<SBool {self.t}>"

    def __format__(self, spec):
        return "<sym>"


def _nonzero_or_raise(b, what):
    """Python raises ZeroDivisionError for a zero divisor: fork on it."""
    tb_ = tz(b)
    c = cur()
    if c.branch(tb_ == 0):
        raise PyExc(ZeroDivisionError, (what,))


def _truediv(a, b):
    _nonzero_or_raise(b, "division by zero")
    ta, tb_, _ = _arith2(a, b)
    if not _is_real(ta):
        ta, tb_ = z3.ToReal(ta), z3.ToReal(tb_)
    cur().note_assumption("true division of ints/floats treated as exact rational arithmetic")
    return wrap(ta / tb_)


def _floordiv(a, b):
    _nonzero_or_raise(b, "integer division or modulo by zero")
    ta, tb_, real = _arith2(a, b)
    if real:
        return wrap(z3.ToReal(z3.ToInt(ta / tb_)))
    c = cur()
    # z3's div is Euclidean: equals floor division when the divisor is positive
    if c.entails(tb_ > 0):
        q = ta / tb_
    elif c.entails(tb_ < 0):
        q = (-ta) / (-tb_)
    else:
        q = z3.If(tb_ > 0, ta / tb_, (-ta) / (-tb_))
    c.hint_div(ta, tb_)
    return wrap(q)


def _mod(a, b):
    _nonzero_or_raise(b, "integer division or modulo by zero")
    ta, tb_, real = _arith2(a, b)
    if real:
        return wrap(ta - tb_ * z3.ToReal(z3.ToInt(ta / tb_)))
    c = cur()
    if c.entails(tb_ > 0):
        r = ta % tb_
    elif c.entails(tb_ < 0):
        r = -((-ta) % (-tb_))
    else:
        r = z3.If(tb_ > 0, ta % tb_, -((-ta) % (-tb_)))
    c.hint_div(ta, tb_)
    return wrap(r)


# ---------------------------------------------------------------------------
# obligations


def finite_expand(e, uni, _cache=None):
    """Expand quantifiers over the given uninterpreted sorts into finite conjunctions/disjunctions over `uni[sort]`
    (the universe of each such sort is taken to be exactly those constants, which may coincide). A model of the
    expansion is a finite model of the original formula: uninterpreted sorts admit any non-empty universe."""
    if _cache is None:
        _cache = {}
    key = e.get_id()
    if key in _cache:
        return _cache[key][1]
    r = _finite_expand(e, uni, _cache)
    _cache[key] = (e, r)  # keep e alive: z3 reuses ids of collected terms
    return r


def _finite_expand(e, uni, _cache):
    key = None
    if z3.is_quantifier(e):
        n = e.num_vars()
        sorts = [e.var_sort(i) for i in range(n)]
        if all(any(srt.eq(u) for u in uni) for srt in sorts):
            import itertools

            doms = []
            for srt in sorts:
                for u, cs in uni.items():
                    if srt.eq(u):
                        doms.append(cs)
            insts = []
            for combo in itertools.product(*doms):
                # substitute_vars: var index 0 is the innermost (last) bound variable
                body = z3.substitute_vars(e.body(), *reversed(combo))
                insts.append(finite_expand(body, uni, _cache))
            r = z3.And(*insts) if e.is_forall() else z3.Or(*insts)
        else:
            r = e
        return r
    if z3.is_app(e) and e.num_args() > 0:
        kids = [finite_expand(ch, uni, _cache) for ch in e.children()]
        if any(not a.eq(b) for a, b in zip(kids, e.children())):
            r = e.decl()(*kids)
        else:
            r = e
        return r
    return e


class _SatNoModel:
    """cvc5 answered sat (no model is imported): compares unequal to z3.sat/unsat/unknown."""

    def __repr__(self):
        return "sat(cvc5)"


_SAT_NO_MODEL = _SatNoModel()


class Obligation:
    __slots__ = ("name", "kind", "result", "backend", "solver_s", "model", "where", "detail", "smt")

    def __init__(self, name, kind, result, backend, solver_s, model=None, where=None, detail=None, smt=None):
        self.name = name
        self.kind = kind
        self.result = result  # 'discharged' | 'failed' | 'unknown'
        self.backend = backend
        self.solver_s = solver_s
        self.model = model
        self.where = where
        self.detail = detail
        self.smt = smt

    def as_dict(self):
        return {
            "name": self.name, "kind": self.kind, "result": self.result, "backend": self.backend,
            "solver_s": round(self.solver_s, 4), "model": self.model, "where": self.where,
            "detail": self.detail,
        }


class PathCtx:
    """One execution of the function under verification along one decision prefix."""

    def __init__(self, prefix=(), timeout_ms=20000, max_decisions=400, end_scope=None):
        self.solver = z3.Solver()
        self.solver.set("timeout", timeout_ms)
        self.timeout_ms = timeout_ms
        self.branch_timeout_ms = 300
        self.use_cvc5 = True
        self.cvc5_calls = 0
        self.last_backend = "z3"
        self.prefix = list(prefix)
        self.end_scope = end_scope  # scope instance in which the flipped decision of this prefix was taken
        self.scope_n = 0
        self.scope_stack = []
        self.defs = []
        self.trace = []  # decisions taken so far on this path
        self.pending = []  # new prefixes to explore
        self.obligations: list[Obligation] = []
        self.assumptions: set[str] = set()
        self.fresh_n = 0
        self.max_decisions = max_decisions
        self.solver_s = 0.0
        self.nchecks = 0
        self.symvars = {}  # name -> z3 const, for model extraction
        self.scoped = []  # stack of scoped hypotheses (generic elements)
        self.ghost = {}  # ghost state for contracts
        self.effects = []  # ghost effect trace
        self.meter = None  # live-memory meter (pyvc/memmeter.py), switched on by a contract around a block function
        self._hinted = set()
        self._alive = []  # terms whose ids are used as cache keys must stay alive (z3 reuses ids)
        self.labels = []

    # -- fresh symbols -----------------------------------------------------
    def fresh_int(self, base="v", lo=None, hi=None):
        self.fresh_n += 1
        name = f"{base}!{self.fresh_n}"
        t = z3.Int(name)
        self.symvars[name] = t
        if lo is not None:
            self.assume(t >= tz(lo))
        if hi is not None:
            self.assume(t <= tz(hi))
        return SInt(t)

    def named_int(self, name, lo=None, hi=None):
        t = z3.Int(name)
        self.symvars[name] = t
        if lo is not None:
            self.assume(t >= tz(lo))
        if hi is not None:
            self.assume(t <= tz(hi))
        return SInt(t)

    def named_bool(self, name):
        t = z3.Bool(name)
        self.symvars[name] = t
        return SBool(t)

    def fresh_bool(self, base="b"):
        self.fresh_n += 1
        name = f"{base}!{self.fresh_n}"
        t = z3.Bool(name)
        self.symvars[name] = t
        return SBool(t)

    def fresh_real(self, base="r"):
        self.fresh_n += 1
        name = f"{base}!{self.fresh_n}"
        t = z3.Real(name)
        self.symvars[name] = t
        return SReal(t)

    # -- solver plumbing ---------------------------------------------------
    def _check(self, *extra, timeout_ms=None):
        t0 = time.time()
        self.solver.push()
        try:
            for e in extra:
                self.solver.add(e)
            if timeout_ms is not None:
                self.solver.set("timeout", timeout_ms)
            r = self.solver.check()
            m = self.solver.model() if r == z3.sat else None
            if r == z3.unknown and self.use_cvc5:
                # second back end: cvc5 decides most nonlinear queries z3 gives up on
                from .cvc5be import check_smt2

                r2, _dt = check_smt2(self.solver.to_smt2(), timeout_ms=(timeout_ms or self.timeout_ms) * 2)
                self.cvc5_calls += 1
                if r2 == "unsat":
                    r = z3.unsat
                    self.last_backend = "cvc5"
                elif r2 == "sat":
                    r = _SAT_NO_MODEL
                    self.last_backend = "cvc5"
        finally:
            if timeout_ms is not None:
                self.solver.set("timeout", self.timeout_ms)
            self.solver.pop()
        dt = time.time() - t0
        self.solver_s += dt
        self.nchecks += 1
        if _SLOW and dt > _SLOW:
            import traceback
            global _DUMPN
            _DUMPN += 1
            if _DUMPN <= 12:
                s2 = z3.Solver()
                for a_ in self.solver.assertions():
                    s2.add(a_)
                for e in extra:
                    s2.add(e)
                open(f"/tmp/slowq_{_DUMPN}_{r}.smt2", "w").write(s2.to_smt2())
            print(f"[slow {dt:.1f}s -> {r}] extra={[str(e)[:300] for e in extra]}", flush=True)
            print("   asserted:", [str(a)[:160] for a in self.solver.assertions()][-14:], flush=True)
            print("   at:", [f"{f.name}:{f.lineno}" for f in traceback.extract_stack()[-9:-1]], flush=True)
        return r, m

    def assume(self, t):
        t = tb(t)
        if z3.is_true(z3.simplify(t)):
            return
        self.solver.add(t)

    def note_assumption(self, text):
        self.assumptions.add(text)

    def entails(self, t):
        t = z3.simplify(tb(t))
        if z3.is_true(t):
            return True
        if z3.is_false(t):
            return False
        r, _ = self._check(z3.Not(t), timeout_ms=self.branch_timeout_ms)
        return r == z3.unsat

    def quick_entails(self, t, timeout_ms=60):
        """opportunistic entailment test (z3 only, tiny budget, no second back end): used where a positive answer merely
        allows a simpler representation and a negative/unknown answer costs nothing"""
        t = z3.simplify(tb(t))
        if z3.is_true(t):
            return True
        if z3.is_false(t):
            return False
        t0 = time.time()
        self.solver.push()
        try:
            self.solver.add(z3.Not(t))
            self.solver.set("timeout", timeout_ms)
            r = self.solver.check()
        finally:
            self.solver.set("timeout", self.timeout_ms)
            self.solver.pop()
        self.solver_s += time.time() - t0
        return r == z3.unsat

    def feasible(self, t=None):
        r, _ = self._check(*([] if t is None else [tb(t)]), timeout_ms=self.branch_timeout_ms)
        return r != z3.unsat

    def hint_div(self, a, b):
        """Nonlinear help: when the dividend is syntactically a product that contains the divisor as a
        factor, assert the ground instance of the lemma  b != 0 -> (b*k) % b == 0 and (b*k) div b == k.
        The lemma schema itself is proved by z3 once per run (lemmas.prove_schemas), so nothing is assumed."""
        try:
            if not z3.is_int_value(b):
                # the defining identity of div/mod (an axiom of the theory): both solvers reason poorly about div/mod by
                # a *symbolic* divisor unless the ground instance is spelled out
                key0 = ("divmod", a.get_id(), b.get_id())
                if key0 not in self._hinted:
                    self._hinted.add(key0)
                    self._alive.append((a, b))
                    self.assume_def(z3.Implies(b > 0, z3.And(a == b * (a / b) + a % b, a % b >= 0, a % b < b)))
            if not z3.is_app(a) or a.decl().kind() != z3.Z3_OP_MUL:
                return

            def factors(t):
                if z3.is_app(t) and t.decl().kind() == z3.Z3_OP_MUL:
                    out = []
                    for ch in t.children():
                        out.extend(factors(ch))
                    return out
                return [t]

            fa, fb = factors(a), factors(b)
            rest = list(fa)
            for f_ in fb:
                for i, g_ in enumerate(rest):
                    if g_.eq(f_):
                        rest.pop(i)
                        break
                else:
                    return
            key = (a.get_id(), b.get_id())
            if key in self._hinted:
                return
            self._hinted.add(key)
            self._alive.append((a, b))
            k = z3.IntVal(1)
            for x in rest:
                k = k * x
            self.solver.add(z3.Implies(b != 0, z3.And(a % b == 0, a / b == k)))
            self.lemma_instances = getattr(self, "lemma_instances", 0) + 1
            return
        except z3.Z3Exception:
            return

    # -- branching ---------------------------------------------------------
    def branch(self, cond):
        w = wrap(tb(cond))
        if w is True:
            return True
        if w is False:
            return False
        cond = w.t
        i = len(self.trace)
        if i < len(self.prefix):
            choice = self.prefix[i]
            self.trace.append(choice)
            self.solver.add(cond if choice else z3.Not(cond))
            return choice
        if i >= self.max_decisions:
            raise PathBudget(f"more than {self.max_decisions} decisions on one path")
        # feasibility checks get a short budget: `unknown` is treated as feasible (sound: more paths explored)
        rt, _ = self._check(cond, timeout_ms=self.branch_timeout_ms)
        rf, _ = self._check(z3.Not(cond), timeout_ms=self.branch_timeout_ms)
        can_t = rt != z3.unsat
        can_f = rf != z3.unsat
        if can_t and can_f:
            if _FORKS is not None:
                key = (getattr(self, "cur_line", None), "unk" if (rt != z3.sat or rf != z3.sat) else "sat")
                _FORKS[key] = _FORKS.get(key, 0) + 1
            self.pending.append((self.trace + [False], self.scope_stack[-1] if self.scope_stack else None))
            self.trace.append(True)
            self.solver.add(cond)
            return True
        if can_t:
            self.trace.append(True)
            self.solver.add(cond)
            return True
        if can_f:
            self.trace.append(False)
            self.solver.add(z3.Not(cond))
            return False
        raise PathInfeasible()

    # -- obligations -------------------------------------------------------
    def oblige(self, name, term, kind="ensures", where=None, detail=None, assume_after=True):
        """Check  pc => term.  Records the result; afterwards the fact is assumed."""
        term = tb(term)
        st = z3.simplify(term)
        if z3.is_true(st):
            ob = Obligation(name, kind, "discharged", "simplify", 0.0, where=where, detail=detail)
            self.obligations.append(ob)
            return ob
        t0 = time.time()
        self.last_backend = "z3"
        # quick attempt first (most obligations are immediate), then the full budget; cvc5 takes z3's unknowns
        r, m = self._check(z3.Not(term), timeout_ms=min(2000, self.timeout_ms))
        if r == z3.unknown:
            self.last_backend = "z3"
            r, m = self._check(z3.Not(term))
        dt = time.time() - t0
        be = self.last_backend
        if r == z3.unsat:
            ob = Obligation(name, kind, "discharged", be, dt, where=where, detail=detail)
        elif r == z3.sat:
            ob = Obligation(name, kind, "failed", be, dt, model=self.model_dict(m), where=where, detail=detail)
        elif r is _SAT_NO_MODEL:
            # cvc5 found a counterexample z3 could not: ask z3 for a model with a generous budget, else report without
            from .cvc5be import check_smt2

            self.solver.push()
            self.solver.add(z3.Not(term))
            try:
                _r, _dt, cm = check_smt2(self.solver.to_smt2(), timeout_ms=self.timeout_ms * 2, want_model=True)
            finally:
                self.solver.pop()
            cm = {k_: v_ for k_, v_ in cm.items() if k_ in self.symvars}
            ob = Obligation(name, kind, "failed", "cvc5", dt, model=cm, where=where, detail=detail)
        else:
            ob = None
            # quantified hypotheses over uninterpreted sorts: look for a counter-model in a small finite universe
            # (a finite interpretation of an uninterpreted sort is a legitimate model, so `sat` here is a genuine
            # counterexample to the verification condition)
            def finite_try(k):
                uni = {srt: [z3.Const(f"{srt.name()}_u{j}", srt) for j in range(k)] for srt in self.finite_sorts}
                s3 = z3.Solver()
                s3.set("timeout", 20000)
                try:
                    for a_ in self.solver.assertions():
                        s3.add(finite_expand(a_, uni))
                    s3.add(finite_expand(z3.Not(term), uni))
                    return s3.check(), s3
                except z3.Z3Exception:
                    return z3.unknown, None

            for k in (3, 4) if getattr(self, "finite_sorts", None) else ():
                r2, s3 = finite_try(k)
                if r2 == z3.sat:
                    # redundancy: the constants of the universe may coincide, so a k-element model is also a model of
                    # the (k+1)-expansion; a refutation is reported only if an independent expansion agrees
                    r3, _s = finite_try(k + 1)
                    if r3 != z3.sat:
                        continue
                    m2 = s3.model()
                    md = self.model_dict(m2)
                    md["_finite_universe"] = k
                    ob = Obligation(name, kind, "failed", f"z3-finite-model({k})", time.time() - t0, model=md, where=where, detail=detail)
                    break
            if ob is None:
                ob = Obligation(name, kind, "unknown", "z3+cvc5", time.time() - t0, where=where, detail=detail)
        self.obligations.append(ob)
        if assume_after:
            self.solver.add(term)
        return ob

    def _retry(self, term):
        """Second-chance back ends for an `unknown`: z3 with the nlsat/qfnra-style tactic,
        then cvc5 on the SMT-LIB dump."""
        import subprocess
        import tempfile
        import os

        t0 = time.time()
        s2 = z3.Solver()
        for a in self.solver.assertions():
            s2.add(a)
        s2.add(z3.Not(term))
        smt = s2.to_smt2()
        # cvc5 CLI
        try:
            with tempfile.NamedTemporaryFile("w", suffix=".smt2", delete=False) as f:
                f.write("(set-logic ALL)\n" + smt.replace("(check-sat)", "(check-sat)\n"))
                path = f.name
            out = subprocess.run(
                ["/usr/bin/cvc5", "--tlimit=%d" % max(self.timeout_ms, 1000), path],
                capture_output=True, text=True, timeout=self.timeout_ms / 1000 + 5,
            ).stdout.strip().splitlines()
            os.unlink(path)
            if out and out[0].strip() == "unsat":
                return "unsat", None, time.time() - t0, "cvc5"
            if out and out[0].strip() == "sat":
                return "sat", None, time.time() - t0, "cvc5"
        except Exception:
            pass
        return "unknown", None, time.time() - t0, "z3+cvc5"

    def model_dict(self, m):
        d = {}
        if m is None:
            return d
        for name, t in self.symvars.items():
            try:
                v = m.eval(t, model_completion=False)
                if z3.is_int_value(v):
                    d[name] = v.as_long()
                elif z3.is_true(v) or z3.is_false(v):
                    d[name] = bool(z3.is_true(v))
                elif z3.is_rational_value(v):
                    d[name] = str(v)
            except Exception:
                pass
        return d

    # -- scoped hypotheses (generic elements) -----------------------------
    def assume_def(self, t):
        """A *definitional* axiom for a fresh symbol (conservative extension): survives scope exits."""
        t = tb(t)
        self.solver.add(t)
        self.defs.append([len(self.scope_stack), t])

    def push(self):
        self.solver.push()
        self.scope_n += 1
        self.scope_stack.append(self.scope_n)

    def pop(self):
        import sys as _sys

        self.solver.pop()
        sid = self.scope_stack.pop()
        depth = len(self.scope_stack)
        for d in self.defs:
            if d[0] > depth:
                self.solver.add(d[1])
                d[0] = depth
        if self.end_scope is not None and sid == self.end_scope and len(self.trace) >= len(self.prefix):
            if _sys.exc_info()[0] is None:
                raise PathEnd()

    # -- quotient facts: q*b <= a < (q+1)*b ---------------------------------------------------------------
    def register_quotient(self, q, a, b):
        """Record the fact q == a div b (given as the division-free pair of inequalities, asserted by the caller) and
        assert ground instances of the quotient lemmas (monotone / additive; schemas proved in lemmas.py) against the
        facts with the same divisor recorded so far. Instances are valid formulas: nothing is assumed."""
        facts = self.ghost.setdefault("quotients", [])
        qz, az, bz = tz(q), tz(a), tz(b)

        def quot(qq, xx):
            return z3.And(qq * bz <= xx, xx < (qq + 1) * bz)

        same = [(q2, a2) for (q2, a2, b2) in facts if b2.eq(bz)]
        for q2, a2 in same:
            self.assume_def(z3.Implies(z3.And(bz >= 1, quot(qz, az), quot(q2, a2), az <= a2), qz <= q2))
            self.assume_def(z3.Implies(z3.And(bz >= 1, quot(qz, az), quot(q2, a2), a2 <= az), q2 <= qz))
        # additive: (q1,a1) exact multiple, (q3,a3), (q2,a1+a3)
        allf = same + [(qz, az)]
        if len(allf) <= 8:
            for (x1, y1) in allf:
                for (x3, y3) in allf:
                    for (x2, y2) in allf:
                        if x2 is x1 or x2 is x3:
                            continue
                        if not (x2 is qz or x1 is qz or x3 is qz):
                            continue
                        self.assume_def(z3.Implies(z3.And(bz >= 1, y1 == x1 * bz, quot(x3, y3), quot(x2, y2), y2 == y1 + y3), x2 == x1 + x3))
        facts.append((qz, az, bz))

    # -- exceptions leaving a scoped block ---------------------------------------
    def check_exception_now(self, e):
        """An exception is about to leave a scoped (generic) block: its contract clause must be discharged here,
        while the scoped hypotheses are still in force."""
        chk = getattr(self, "exc_checker", None)
        if chk is not None and not getattr(e, "checked", False):
            chk(e)
            e.checked = True

    # -- ghost effect trace -----------------------------------------------
    def effect(self, kind, *info):
        self.effects.append((kind,) + tuple(info))
