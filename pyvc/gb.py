"""The universal contract of the primitive `cubed.primitive.blockwise.general_blockwise`, discharged at
every call with the caller's *real* key function and block function on a generic (symbolic) output block.
The array-level wrappers in cubed/core/ops.py (blockwise, general_blockwise, _general_blockwise, map_blocks,
_map_blocks, map_selection) are *interpreted from source*, so block-id delivery, spec checks, chunk
derivation and argument plumbing are part of what is verified.

requires (obligations generated at the call site):
  GB.meta      declared shape == per-axis sum of the declared chunks; the declared grid is the regular grid of the
               storage chunk size the tasks write with (else tasks write regions other than the declared blocks)
  GB.keys      for every task coordinate `oc`: the key function raises nothing and every ChunkKey it returns names a
               declared input, has that input's rank and 0 <= coords[i] < numblocks(input)[i]
  GB.shape     the block function, applied to blocks of exactly the regions those keys denote, raises nothing and
               returns, for output j, a block whose shape equals the region task `oc` writes in target j
  GB.origin    (data-movement operations with a declared index map) element `l` of that block is element
               sigma(start(oc)+l) of the declared source array
  GB.align     the region a task writes is a union of whole storage chunks of the target
ensures: PrimitiveOperation with target arrays of the declared shape/dtype and storage chunks, projected_mem by the
  memory formula, num_tasks = number of blocks of the output grid (or the caller's number for explicit task lists)
"""
from __future__ import annotations

import os

import z3

from . import sym
from .arrays import (ConstGrid, Dtype, SymBlock, ZArr, as_grid, normalize_chunks_contract, region)
from .interp import GenList, IObj, Opaque
from .sym import PyExc, SInt, Unsupported, tb, tz, wrap
from .symseq import ChunkSeq, Grid, MapSeq, SymSeq


def _is_chunkkey(v):
    return isinstance(v, IObj) and v.cls.name == "ChunkKey"


def _is_fargs(v):
    return isinstance(v, IObj) and v.cls.name == "FunctionArgs"


def ConstSeqOf(items):
    from .symseq import ConstSeq

    return ConstSeq(tuple(items))


class GBCall:
    streams = ()

    def __init__(self):
        self.streams = []
        self._init2()

    def _init2(self):
        self.keys = []
        self.result_blocks = None
        self.oc = None
        self.out_regions = None
        self.in_names = None
        self.kwargs = None


class _Abort(Exception):
    pass


def _oblige(it, name, term, kind="requires", detail=None):
    return it.ctx.oblige(name, term, kind=kind, detail=detail)


def zarr_grids(it, z):
    g = getattr(z, "grids", None)
    if g is not None:
        return tuple(g)
    return normalize_chunks_contract(it, z.chunks, z.shape)


def primitive_gb_summary(c):
    def summary(it, fn, a, k):
        return run_gb(c, it, list(a), dict(k))

    return summary


def run_gb(c, it, a, k):
    ctx = it.ctx
    n_call = len(getattr(c, "gb_calls", [])) + 1
    tag = "GB" if n_call == 1 or getattr(c, "gb_single_tag", False) else f"GB#{n_call}"
    func, bkf, arrays = a[0], a[1], list(a[2:])
    allowed_mem, reserved_mem = k.pop("allowed_mem"), k.pop("reserved_mem")
    target_stores, target_names = k.pop("target_stores"), k.pop("target_names")
    k.pop("target_paths", None)
    k.pop("storage_options", None)
    k.pop("compressor", None)
    shapes, dtypes, chunkss = k.pop("shapes"), k.pop("dtypes"), k.pop("chunkss")
    in_names = k.pop("in_names", None)
    extra_mem = k.pop("extra_projected_mem", 0)
    buffer_copies = k.pop("buffer_copies", None)
    extra_func_kwargs = k.pop("extra_func_kwargs", None) or {}
    fwp = k.pop("fusable_with_predecessors", True)
    fws = k.pop("fusable_with_successors", True)
    num_input_blocks = k.pop("num_input_blocks", None)
    target_chunks_ = k.pop("target_chunks_", None)
    return_writes_stores = k.pop("return_writes_stores", False)
    output_blocks = k.pop("output_blocks", None)
    num_tasks = k.pop("num_tasks", None)
    func_kwargs = dict(k)
    func_kwargs.update(extra_func_kwargs)

    names = list(in_names) if in_names else [f"in_{i}" for i in range(len(arrays))]
    if len(names) != len(arrays):
        raise PyExc(ValueError, ("zip() argument 2 is shorter/longer than argument 1",))
    by_name = {}
    for nm, z in zip(names, arrays):
        if not isinstance(z, ZArr):
            raise Unsupported(f"general_blockwise input {type(z).__name__}")
        by_name[nm] = z

    rec = GBCall()
    rec.in_names, rec.kwargs = names, func_kwargs
    rec.target_names = list(target_names)
    c.gb_calls = getattr(c, "gb_calls", [])
    c.gb_calls.append(rec)

    # ---- outputs: the real code normalises chunkss[i], takes to_chunksize, checks equal numblocks ----
    to_chunksize = it.world.lookup("cubed.utils:to_chunksize")
    nout = len(target_stores)
    grids, chunksizes, targets, wgrids = [], [], [], []
    nb0 = None
    for j in range(nout):
        gj = normalize_chunks_contract(it, chunkss[j], shapes[j])
        csz = it.call(to_chunksize, [gj], {})  # raises ValueError for irregular declared chunks (explicit)
        nbj = [g.length() for g in gj]
        if nb0 is None:
            nb0 = nbj
        elif len(nbj) != len(nb0) or not all(it.truth(x == y) for x, y in zip(nbj, nb0)):
            raise PyExc(ValueError, ("All outputs must have matching number of blocks in each dimension",))
        ts = target_stores[j]
        if isinstance(ts, ZArr):
            ta = ts
        else:
            st_chunks = target_chunks_ if target_chunks_ is not None else csz
            ta = ZArr(f"z:{target_names[j]}", tuple(shapes[j]), dtypes[j], st_chunks, kind="lazy")
            ta.__dict__["store"] = ts
            ta.__dict__["path"] = target_names[j]
            if target_chunks_ is not None:
                ta.__dict__["task_chunks"] = csz
        targets.append(ta)
        # the grid tasks really write with: normalize_chunks(write_proxy.chunks, shape=target.shape)
        wg = normalize_chunks_contract(it, csz, ta.shape)
        for i, (g, w) in enumerate(zip(gj, wg)):
            _grid_equal_obligation(it, f"{tag}.meta:declared-grid-is-the-grid-tasks-write[out{j},axis{i}]", as_grid(it, g), w)
        if len(ta.shape) != len(shapes[j]):
            _oblige(it, f"{tag}.meta:target-rank[out{j}]", False)
        else:
            _oblige(it, f"{tag}.meta:target-shape-is-declared-shape[out{j}]",
                    z3.And(*[tz(x) == tz(y) for x, y in zip(ta.shape, shapes[j])]) if shapes[j] else True)
        grids.append(gj)
        wgrids.append(wg)
        chunksizes.append(csz)
        # GB.align: regular storage chunks
        _align(c, it, ta, csz, tag, j)

    nd_out = len(nb0)
    # ---- generic task --------------------------------------------------------------------------
    ctx.push()
    try:
        oc = tuple(ctx.fresh_int(f"oc{i}", lo=0) for i in range(nd_out))
        for i in range(nd_out):
            ctx.assume(oc[i] < nb0[i])
        if output_blocks is not None:
            # explicit task list: the generic task is a generic element of the iterable the caller supplied
            # (its real __iter__ is interpreted); GB.tasks: the advertised count equals the number of listed blocks
            h = getattr(c, "gb_output_blocks", None)
            if h is not None:
                h(it, oc, output_blocks, rec)
            else:
                seq = it.builtins["iter"](output_blocks) if not isinstance(output_blocks, SymSeq) else output_blocks
                if isinstance(seq, GenList):
                    seq = ConstSeqOf(list(seq))
                if not isinstance(seq, SymSeq):
                    raise Unsupported("output_blocks is not an interpretable iterable")
                ntasks = seq.length()
                rec.listed_tasks = ntasks
                if num_tasks is not None:
                    _oblige(it, f"{tag}.tasks:num_tasks-equals-number-of-listed-blocks", num_tasks == ntasks)
                kk = ctx.fresh_int("tk", lo=0)
                ctx.assume(kk < ntasks)
                if ctx.feasible():
                    el = seq.get(it, kk)
                    el = list(el) if not isinstance(el, SymSeq) else list(el._pyvc_iter(it))
                    if len(el) != nd_out:
                        _oblige(it, f"{tag}.tasks:listed-block-rank", False)
                        raise _Abort()
                    _oblige(it, f"{tag}.tasks:listed-blocks-lie-in-the-output-grid", z3.And(*[tb((e >= 0) & (e < n)) for e, n in zip(el, nb0)]) if el else True)
                    for x, e in zip(oc, el):
                        ctx.assume(x == e)
        if ctx.feasible():
            rec.oc = oc
            CK = it.world.lookup("cubed.primitive.blockwise:ChunkKey")
            out_key = it.call(CK, ["out", oc], {})
            try:
                fargs = it.call(bkf, [out_key], {})
            except PyExc as e:
                _oblige(it, f"{tag}.keys:key-function-raises-nothing", False, detail=f"{e.tname}{e.eargs!r} at {e.where}")
                raise _Abort()
            _oblige(it, f"{tag}.keys:key-function-raises-nothing", True)
            if not _is_fargs(fargs):
                raise Unsupported("key function did not return FunctionArgs")
            blocks = [_blocks_of(c, it, arg, by_name, f"{tag}.keys", pos, rec) for pos, arg in enumerate(fargs.attrs["args"])]
            meter = None
            if getattr(c, "meter_memory", False) or os.environ.get("PYVC_METER"):
                from .memmeter import MemMeter

                meter = ctx.meter = MemMeter(it, pinned=blocks, on_alloc=_memory_obligation(c, it, tag, reserved_mem, arrays, extra_mem, dtypes, chunksizes, buffer_copies))
            try:
                res = it.call(func, blocks, dict(func_kwargs))
            except PyExc as e:
                _oblige(it, f"{tag}.shape:block-function-raises-nothing", False, detail=f"{e.tname}{e.eargs!r} at {e.where}")
                raise _Abort()
            finally:
                ctx.meter = None

            _oblige(it, f"{tag}.shape:block-function-raises-nothing", True)
            if isinstance(res, GenList):
                outs = list(res)
            elif isinstance(res, tuple):
                outs = list(res)
            else:
                outs = [res]
            if len(outs) != nout:
                _oblige(it, f"{tag}.shape:one-block-per-output", False, detail=f"{len(outs)} blocks for {nout} outputs")
                raise _Abort()
            regs = [region(it, wgrids[j], oc) for j in range(nout)]
            rec.out_regions, rec.result_blocks = regs, outs
            for j, blk in enumerate(outs):
                _check_block(c, it, blk, regs[j], f"{tag}.shape[out{j}]", f"{tag}.origin[out{j}]", j)
                h = getattr(c, "check_result_block", None)
                if h is not None:
                    h(it, rec, tag, j, blk)
    except _Abort:
        pass
    finally:
        ctx.pop()

    # ---- ensures: the PrimitiveOperation --------------------------------------------------------
    PO = it.world.lookup("cubed.primitive.types:PrimitiveOperation")
    CP = it.world.lookup("cubed.runtime.types:CubedPipeline")
    BS = it.world.lookup("cubed.primitive.blockwise:BlockwiseSpec")
    PX = it.world.lookup("cubed.primitive.types:CubedArrayProxy")
    AB = it.world.lookup("cubed.primitive.blockwise:apply_blockwise")
    import functools

    reads = {nm: it.call(PX, [z, z.chunks], {}) for nm, z in by_name.items()}
    writes = {target_names[j]: it.call(PX, [targets[j], chunksizes[j]], {}) for j in range(nout)}
    nib = num_input_blocks or (1,) * len(arrays)
    spec = it.call(BS, [bkf, functools.partial(func, **func_kwargs), nib, (1,) * nout, reads, writes, return_writes_stores], {})
    mem = _projected_mem(it, reserved_mem, arrays, extra_mem, dtypes, chunksizes, buffer_copies)
    if num_tasks is None:
        num_tasks = 1
        for x in nb0:
            num_tasks = num_tasks * x
    mappable = Opaque("tasks", grid=tuple(nb0), output_blocks=output_blocks)
    pipe = it.call(CP, [AB, f"apply_blockwise-{n_call}", mappable, spec], {})
    op = it.call(PO, [], dict(
        pipeline=pipe, source_array_names=names, target_array=targets[0] if nout == 1 else targets,
        projected_mem=mem, allowed_mem=allowed_mem, reserved_mem=reserved_mem, num_tasks=num_tasks,
        fusable_with_predecessors=fwp, fusable_with_successors=fws, write_chunks=chunksizes[-1]))
    rec.op = op
    return op


def _grid_equal_obligation(it, name, g1, g2):
    """g1 == g2 as sequences: equal length and equal block size at a generic index."""
    from .symseq import ConcatGrid

    if not isinstance(g1, ConcatGrid) and not isinstance(g2, ConcatGrid):
        try:
            return _oblige(it, name, g1.grid_eq(g2))
        except Unsupported:
            pass
    ctx = it.ctx
    l1, l2 = g1.length(), g2.length()
    ob = _oblige(it, name + ":length", l1 == l2)
    ctx.push()
    try:
        k = ctx.fresh_int("gi", lo=0)
        ctx.assume(k < l1)
        if ctx.feasible():
            _oblige(it, name, g1.get(it, k) == g2.get(it, k))
    finally:
        ctx.pop()


def _projected_mem(it, reserved_mem, arrays, extra, dtypes, chunksizes, bc):
    isz = it.world.summaries["cubed.utils:itemsize"]
    r = 1 if bc is None else bc.attrs["read"]
    w = 1 if bc is None else bc.attrs["write"]
    mem = reserved_mem
    for z in arrays:
        m = isz(it, None, [z.dtype], {})
        for s in z.chunks:
            m = m * s
        mem = mem + m * (1 + r)
    mem = mem + extra
    out = 0
    for dt, cs in zip(dtypes, chunksizes):
        m = isz(it, None, [dt], {})
        for s in cs:
            m = m * s
        out = m if out == 0 else wrap(z3.If(tz(m) > tz(out), tz(m), tz(out)))
    return mem + out * (1 + w)


def _short(label):
    return label.replace("(...)", "").replace("block:", "in:").replace(" ", "")


def _memory_obligation(c, it, tag, reserved_mem, arrays, extra_mem, dtypes, chunksizes, buffer_copies):
    """GB.mem (C03): at every allocation point of the block function the array data that is live fits into
    projected_mem - reserved_mem (see pyvc/memmeter.py for what is counted).  -> the meter's allocation callback"""
    ctx = it.ctx
    mem = _projected_mem(it, reserved_mem, arrays, extra_mem, dtypes, chunksizes, buffer_copies)
    budget = mem - reserved_mem
    cands = [1]
    for z in arrays:
        cands.extend(z.chunks)
    for cs in chunksizes:
        cands.extend(cs)
    memo, seen = {}, set()

    def canon(e):
        if isinstance(e, int):
            return e
        key = tz(e).get_id()
        if key in memo and memo[key][0].eq(tz(e)):
            return memo[key][1]
        r = e
        ez = tz(e)
        for cd in cands:  # cheap syntactic tests first
            if cd is e or ez.eq(tz(cd)) or z3.is_true(z3.simplify(ez == tz(cd))):
                r = cd
                break
        else:
            if not z3.is_int_value(z3.simplify(ez)):
                for cd in cands:
                    if ctx.entails(ez == tz(cd)):
                        r = cd
                        break
        memo[key] = (ez, r)
        return r

    def on_alloc(meter, label, bufs):
        sizes = sorted(_short(b.label) for b in bufs)
        label = _short(label)
        key = (label, tuple(sizes))
        if key in seen:
            return
        seen.add(key)
        total = 0
        for b in bufs:
            n = b.dtype.itemsize if b.dtype is not None and hasattr(b.dtype, "itemsize") else 1
            for e in b.shape:
                n = n * canon(e)
            total = total + n
        off = ctx.meter
        ctx.meter = None  # the obligation itself allocates nothing
        try:
            _oblige(it, f"{tag}.mem:live-array-data-fits-projected-memory[at-{label}:{'+'.join(sizes)}]", tb(total <= budget),
                    kind="ensures")
        finally:
            ctx.meter = off

    return on_alloc


def _align(c, it, ta, task_chunks, tag, j):
    """GB.align for regular storage chunks: each task region is a union of whole storage chunks."""
    st = ta.chunks
    if any(isinstance(x, (tuple, list, SymSeq)) for x in st):
        h = getattr(c, "gb_align_irregular", None)
        if h is None:
            raise Unsupported("irregular storage chunks without an alignment contract")
        return h(it, ta, task_chunks, tag, j)
    for i, (tc, sc, n) in enumerate(zip(task_chunks, st, ta.shape)):
        if isinstance(sc, int) and not isinstance(sc, bool) and sc == 0:
            # storage chunk of extent 0 (zero-extent axis): no chunk can be shared; only the covering clause remains
            cond = tb(tc >= n)
        else:
            cond = tb((tc % sc == 0) | (tc >= n))
        _oblige(it, f"{tag}.align:task-region-is-whole-storage-chunks[out{j},axis{i}]", cond)


def _check_key(c, it, key, by_name, tag, pos):
    name = key.attrs["name"]
    coords = key.attrs["coords"]
    if not isinstance(name, str):
        raise Unsupported("symbolic ChunkKey name")
    if name not in by_name:
        _oblige(it, f"{tag}:names-a-declared-input[arg{pos}]", False, detail=f"{name!r} not in {sorted(by_name)}")
        raise _Abort()
    _oblige(it, f"{tag}:names-a-declared-input[arg{pos}]", True)
    z = by_name[name]
    grids = zarr_grids(it, z)
    if isinstance(coords, SymSeq):
        coords = tuple(coords._pyvc_iter(it))
    coords = tuple(coords)
    if len(coords) != len(grids):
        _oblige(it, f"{tag}:rank-matches[arg{pos}]", False, detail=f"{len(coords)} coords for rank {len(grids)}")
        raise _Abort()
    terms = [tb((ci >= 0) & (ci < g.length())) for ci, g in zip(coords, grids)]
    ob = _oblige(it, f"{tag}:in-range[arg{pos}]", z3.And(*terms) if terms else True, detail=f"key into {name}")
    if ob.result != "discharged":
        raise _Abort()
    return z, grids, coords


def _block_for(c, it, name, z, grids, coords):
    kind = getattr(z, "vkind", None)
    reg = region(it, grids, coords)
    starts = tuple(r[0] for r in reg)
    shape = tuple(r[1] for r in reg)
    if kind == "offsets":
        # VirtualOffsetsArray: the 0-d value at block `coords` is ravel_multi_index(coords, shape)
        return OffsetBlock(coords, z.shape)
    origin = lambda loc, starts=starts, name=name: (name, tuple(s + l for s, l in zip(starts, loc)))
    blk = SymBlock(shape, z.dtype, origin, f"block:{name}")
    blk.agg = dict(src=name, box=tuple((s0, s0 + e) for s0, e in zip(starts, shape)), cond=[])
    ea = getattr(c, "eagg", {}).get(name)
    if ea is not None:
        ax, s0 = ea["axis"], starts[ea["axis"]]
        # the provenance function may use the start of the block the element lies in (second argument)
        blk.pagg = dict(axis=ax, f=(lambda l, f=ea["f"], s0=s0: f(s0 + l, s0)), cond=[])
    return blk


class OffsetBlock(SymBlock):
    """A block of the virtual offsets array: carries the block coordinates it encodes."""

    def __init__(self, coords, numblocks):
        super().__init__((1,) * len(coords), None, None, "offsets")
        self.coords = tuple(coords)
        self.numblocks = tuple(numblocks)

    def _pyvc_int(self, interp):
        # int(a[-1]) in func_with_block_id: row-major offset of the block coordinates
        off = 0
        for ci, n in zip(self.coords, self.numblocks):
            off = off * n + ci
        interp.ctx.note_assumption("VirtualOffsetsArray[block] == np.ravel_multi_index(block coords, numblocks) (row-major)")
        return OffsetValue(off, self.coords, self.numblocks)


def _exact_div(it, a, b):
    """a // b where a is by construction a product containing b."""
    q = it.ctx.fresh_int("stride", lo=0)
    it.ctx.assume(q * b == a)
    return q


class OffsetValue:
    _pyvc_symbolic = True

    def __init__(self, off, coords, numblocks):
        self.off, self.coords, self.numblocks = off, coords, numblocks


def _blocks_of(c, it, arg, by_name, tag, pos, rec):
    ctx = it.ctx
    if _is_chunkkey(arg):
        z, grids, coords = _check_key(c, it, arg, by_name, tag, pos)
        rec.keys.append((pos, arg.attrs["name"], coords))
        return _block_for(c, it, arg.attrs["name"], z, grids, coords)
    if isinstance(arg, list):
        return [_blocks_of(c, it, x, by_name, tag, pos, rec) for x in arg]
    if isinstance(arg, GenList):
        return GenList([_blocks_of(c, it, x, by_name, tag, pos, rec) for x in arg])
    if isinstance(arg, SymSeq):
        if arg.concrete_len():
            items = [_blocks_of(c, it, x, by_name, tag, pos, rec) for x in arg._pyvc_iter(it)]
            return GenList(items) if arg.lazy else items
        n = arg.length()
        if ctx.feasible(tb(n > 0)):
            ctx.push()
            try:
                kk = ctx.fresh_int("gkey", lo=0)
                ctx.assume(kk < n)
                _blocks_of(c, it, arg.get(it, kk), by_name, tag, pos, rec)
            finally:
                ctx.pop()

        def blk(key):
            z = by_name[key.attrs["name"]]
            return _block_for(c, it, key.attrs["name"], z, zarr_grids(it, z), tuple(key.attrs["coords"]))

        m = _PosMapSeq(arg, blk, lazy=arg.lazy, is_list=arg.is_list)
        rec.streams.append((pos, arg, m))
        return m
    raise Unsupported(f"key function returned {type(arg).__name__}")


class _PosMapSeq(MapSeq):
    """the blocks a task receives as a list/stream: the k-th block is tagged with its position, so that a block
    function's result can be shown to fold positions 0..m-1, each once (positional aggregation provenance)"""

    def get(self, interp, k):
        b = MapSeq.get(self, interp, k)
        if isinstance(b, SymBlock):
            b.aggpos = dict(seq=id(self), lo=k, hi=k + 1, cond=[])
        return b


def _check_block(c, it, blk, reg, tag, otag, j):
    ctx = it.ctx
    if isinstance(blk, dict):
        for kf, v in blk.items():
            _check_block(c, it, v, reg, f"{tag}[{kf}]", otag, j)
        return
    if not isinstance(blk, SymBlock):
        raise Unsupported(f"block function returned {type(blk).__name__}")
    if len(blk.shape) != len(reg):
        _oblige(it, f"{tag}:block-shape-equals-region", False, detail=f"block rank {len(blk.shape)} vs region rank {len(reg)}")
        return
    terms = [tz(s) == tz(r[1]) for s, r in zip(blk.shape, reg)]
    _oblige(it, f"{tag}:block-shape-equals-region", z3.And(*terms) if terms else True)
    exp = getattr(c, "expect_origin", None)
    if exp is None:
        return
    ctx.push()
    try:
        loc = tuple(ctx.fresh_int(f"l{i}", lo=0) for i in range(len(reg)))
        for l, r in zip(loc, reg):
            ctx.assume(l < r[1])
        if ctx.feasible() and blk.origin is None:
            # (an empty region has no element to account for: nothing to show)
            _oblige(it, f"{otag}:element-comes-from-the-right-source", False, detail="provenance lost (block was computed, not moved)")
        elif ctx.feasible():
            g = tuple(r[0] + l for l, r in zip(loc, reg))
            got = blk.origin(loc)
            want = exp(j, g)
            al = getattr(c, "aliases", {})
            while got[0] in al:
                got = (al[got[0]], got[1])
            if got[0] != want[0]:
                _oblige(it, f"{otag}:element-comes-from-the-right-source", False, detail=f"{got[0]} != {want[0]}")
            else:
                terms = [tz(x) == tz(y) for x, y in zip(got[1], want[1])]
                ok = len(got[1]) == len(want[1])
                _oblige(it, f"{otag}:element-comes-from-the-right-source", z3.And(*terms) if (terms and ok) else ok)
    finally:
        ctx.pop()


# ---------------------------------------------------------------------------------------------------
# environment of the array-level wrappers


def install(c):
    """Install the universal primitive contract plus the (assumed or separately proved) contracts of the
    helpers the array-level wrappers call."""
    from .arrays import build_array, make_spec, prelude

    it = c.interp
    S = prelude(c)
    S["cubed.primitive.blockwise:general_blockwise"] = primitive_gb_summary(c)

    def rechunk_summary(it, fn, a, k):
        """Contract of cubed.core.ops.rechunk (proved separately, see contracts/c14): same shape, dtype, spec and
        element values (identity index map), chunks == normalize_chunks(requested); x itself when nothing changes."""
        x, chunks = a[0], (a[1] if len(a) > 1 else k["chunks"])
        if isinstance(chunks, dict):
            raise Unsupported("rechunk with dict chunks")
        chunks = tuple(lc if lc is not None else rc for lc, rc in zip(chunks, x.attrs["_chunks"]))
        grids = normalize_chunks_contract(it, chunks, x.attrs["_shape"])
        same = True
        for g0, g1 in zip(x.attrs["_chunks"], grids):
            e = as_grid(it, g0).grid_eq(as_grid(it, g1))
            same = e if same is True else (same & e)
        if it.truth(same):
            # equal sequences have equal lengths: link the block counts of the two descriptions of the same grid
            # (a valid consequence, it lets the quotient lemmas see the requested chunk size as divisor)
            for g0, g1 in zip(x.attrs["_chunks"], grids):
                it.ctx.assume_def(tz(as_grid(it, g0).length()) == tz(as_grid(it, g1).length()))
            return x
        from .arrays import fresh_name

        new = build_array(it, fresh_name(it), x.attrs["_shape"], grids, x.attrs["_dtype"], x.attrs["spec"])
        # the new array owns a fresh plan: its node and the (rechunk) operation that produces it
        import networkx as nx

        PlanCls = it.world.lookup("cubed.core.plan:Plan")
        PO = it.world.lookup("cubed.primitive.types:PrimitiveOperation")
        CP = it.world.lookup("cubed.runtime.types:CubedPipeline")
        BS = it.world.lookup("cubed.primitive.blockwise:BlockwiseSpec")
        PX = it.world.lookup("cubed.primitive.types:CubedArrayProxy")
        nm = new.attrs["name"]
        z = new.attrs["_zarray"]
        bs = it.call(BS, [Opaque("rechunk.keyfn"), Opaque("rechunk.fn"), (1,), (1,), {}, {nm: it.call(PX, [z, z.chunks], {})}], {})
        pipe = it.call(CP, [Opaque("apply_blockwise"), "rechunk-pipeline", Opaque("tasks"), bs], {})
        rop = it.call(PO, [], dict(pipeline=pipe, source_array_names=[x.attrs["name"]], target_array=z,
                                   projected_mem=0, allowed_mem=0, reserved_mem=0, num_tasks=1,
                                   fusable_with_predecessors=False, fusable_with_successors=False))
        dag = nx.MultiDiGraph()
        dag.add_node(f"op-{nm}", name=f"op-{nm}", type="op", primitive_op=rop, pipeline=pipe, op_name="rechunk")
        dag.add_node(nm, name=nm, type="array", target=z)
        dag.add_edge(f"op-{nm}", nm)
        new.attrs["_plan"] = IObj(PlanCls, dict(dag=dag, array_names=(nm,)))
        c.aliases = getattr(c, "aliases", {})
        c.aliases[new.attrs["name"]] = x.attrs["name"]
        it.ctx.note_assumption("rechunk: contract used at call sites (identity on values, requested chunks); proved by the C14 contracts")
        return new

    S["cubed.core.ops:rechunk"] = rechunk_summary

    def create_zarr_indexer(it, fn, a, k):
        from .zarridx import SymIndexer

        return SymIndexer(it, *a, **k)

    S["cubed.core.ops:_create_zarr_indexer"] = create_zarr_indexer
    from .zarridx import ScatterLoop

    it.loop_specs.setdefault(("cubed.core.ops:_assemble_index_chunk", 1), ScatterLoop("_assemble_index_chunk.scatter"))

    def plan_new(it, fn, a, k):
        # Plan._new(name, op_name, target, primitive_op, hidden, scalar_value, *source_arrays)
        srcs = [x for x in a[7:] if isinstance(x, IObj)] if len(a) > 7 else []
        # arrays_to_dag -> check_array_specs on the sources (real code)
        if srcs:
            cas = it.world.lookup("cubed.core.array:check_array_specs")
            it.call(cas, [tuple(srcs)], {})
        p = Opaque("plan", name=a[1] if len(a) > 1 else None, sources=[s.attrs["name"] for s in srcs],
                   primitive_op=a[4] if len(a) > 4 else k.get("primitive_op"))
        it.ctx.effect("Plan._new", a[1] if len(a) > 1 else None)
        return p

    S["cubed.core.plan:Plan._new"] = plan_new

    # execution entry points: building code must never reach them (C16); reaching one is recorded as an effect and
    # yields an arbitrary value (what the computation would have returned)
    def _executes(it_, fn, a, k):
        it_.ctx.effect("execute", getattr(fn, "qual", "compute"))
        return it_.ctx.fresh_int("computed_value")

    S.setdefault("cubed.core.array:CoreArray.compute", _executes)
    S.setdefault("cubed.core.array:compute", _executes)

    def intermediate_store(it, fn, a, k):
        spec = k.get("spec", a[0] if a else None)
        return Opaque("intermediate-store", spec=spec)

    S["cubed.core.plan:intermediate_store"] = intermediate_store

    def is_storage_array(it, fn, a, k):
        return isinstance(a[0], ZArr) and a[0].kind == "zarr"

    S["cubed.storage.store:is_storage_array"] = is_storage_array

    def lazy_zarr_array(it, fn, a, k):
        store, shape, dtype, chunks = (list(a) + [None] * 4)[:4]
        shape = k.get("shape", shape)
        dtype = k.get("dtype", dtype)
        chunks = k.get("chunks", chunks)
        z = ZArr("z:lazy", tuple(shape), dtype, tuple(chunks), kind="lazy")
        z.__dict__["store"] = store
        z.__dict__["path"] = k.get("path")
        return z

    S["cubed.storage.zarr:lazy_zarr_array"] = lazy_zarr_array

    def spec_from_config(it, fn, a, k):
        sp = getattr(c, "config_spec", None)
        if sp is None:
            sp = c.config_spec = make_spec(c, "cfgspec")
        return sp

    S["cubed.spec:spec_from_config"] = spec_from_config

    def virtual_offsets(it, fn, a, k):
        shape = tuple(a[0])
        z = ZArr("z:offsets", shape, Dtype("int32", 4), (1,) * len(shape), kind="virtual")
        z.__dict__["vkind"] = "offsets"
        return z

    S["cubed.storage.virtual:virtual_offsets"] = virtual_offsets

    def virtual_empty(it, fn, a, k):
        shape = tuple(a[0])
        z = ZArr("z:empty", shape, k.get("dtype"), tuple(k.get("chunks")), kind="virtual")
        z.__dict__["vkind"] = "empty"
        return z

    S["cubed.storage.virtual:virtual_empty"] = virtual_empty

    def block_id_to_offset(it, fn, a, k):
        """np.ravel_multi_index(block_id, numblocks): row-major; ValueError for an out-of-range coordinate."""
        bid, nb = tuple(a[0]), tuple(a[1])
        it.ctx.note_assumption("np.ravel_multi_index / np.unravel_index are row-major and raise ValueError out of range")
        if len(bid) != len(nb):
            raise PyExc(ValueError, ("parameter multi_index must be a sequence of length %d" % len(nb),))
        off = 0
        for ci, n in zip(bid, nb):
            if it.truth((ci < 0) | (ci >= n)):
                raise PyExc(ValueError, ("invalid entry in coordinates array",))
            off = off * n + ci
        return off

    S["cubed.utils:block_id_to_offset"] = block_id_to_offset

    def offset_to_block_id(it, fn, a, k):
        off, nb = a[0], a[1]
        if isinstance(off, (int, SInt)):
            nb = tuple(nb)
            it.ctx.note_assumption("np.ravel_multi_index / np.unravel_index are row-major and raise ValueError out of range")
            tot = 1
            for n in nb:
                tot = tot * n
            if it.truth((off < 0) | (off >= tot)):
                raise PyExc(ValueError, ("index is out of bounds for array with size",))
            out = []
            stride = tot
            rem = off
            for n in nb:
                stride = stride // n if isinstance(stride, int) and isinstance(n, int) else _exact_div(it, stride, n)
                out.append(rem // stride)
                rem = rem % stride
            return tuple(out)
        if isinstance(off, OffsetValue):
            # np.unravel_index(np.ravel_multi_index(coords, shape), shape) == coords is the round-trip lemma
            # (proved for ranks 1-4 by the utils contract); the numblocks used to decode must be the ones used to encode
            same = len(nb) == len(off.numblocks) and all(it.truth(x == y) for x, y in zip(nb, off.numblocks))
            if not same:
                raise Unsupported("offset decoded with a different block grid than it was encoded with")
            return tuple(off.coords)
        raise Unsupported("offset_to_block_id on a non-offset value")

    S["cubed.utils:offset_to_block_id"] = offset_to_block_id

    def array_namespace_info(it, fn, a, k):
        class _Info:
            def default_dtypes(self, device=None):
                return {"real floating": Dtype("float64", 8), "integral": Dtype("int64", 8), "indexing": Dtype("int64", 8),
                        "complex floating": Dtype("complex128", 16)}

        return _Info()

    S["cubed.array_api.inspection_functions:__array_namespace_info__"] = array_namespace_info
    S["cubed.array_api:__array_namespace_info__"] = array_namespace_info
    return S
