"""Native replay for the admission-control contracts (C04/C13): real PrimitiveOperation objects are built from the
verifier's model (projected_mem / allowed_mem / num_tasks per operation), put into a real networkx DAG, and the real
Plan / FinalizedPlan methods are called."""


def _mk_op(model, label):
    from cubed.primitive.types import PrimitiveOperation
    from cubed.runtime.types import CubedPipeline

    g = lambda k, d: int(model.get(f"{label}_{k}", d))  # noqa: E731
    pipe = CubedPipeline(lambda *a, **k: None, f"{label}-pipeline", [], None)

    class _T:
        shape, chunks, dtype = (g("n", 1),), (g("chunk", 1),), __import__("numpy").dtype("u1")
        nbytes, nchunks = g("n", 1), 1

    return PrimitiveOperation(pipeline=pipe, source_array_names=[], target_array=_T(), projected_mem=g("projected_mem", 0),
                              allowed_mem=g("allowed_mem", 0), reserved_mem=g("reserved_mem", 0), num_tasks=g("num_tasks", 1),
                              fusable_with_predecessors=True, fusable_with_successors=True)


def _dag(model, k):
    import networkx as nx

    dag = nx.MultiDiGraph()
    ops = {}
    for i in range(k):
        op = _mk_op(model, f"op{i}")
        ops[f"op-{i:03}"] = op
        dag.add_node(f"op-{i:03}", name=f"op-{i:03}", type="op", primitive_op=op, pipeline=op.pipeline)
        dag.add_node(f"array-{i:03}", name=f"array-{i:03}", type="array", target=op.target_array)
        dag.add_edge(f"op-{i:03}", f"array-{i:03}")
    dag.add_node("op-plain", name="op-plain", type="op")
    return dag, ops


def run_find_ops_exceeding(model, k):
    from cubed.core.plan import Plan

    dag, ops = _dag(model, k)
    plan = Plan(dag, ())
    res = plan._find_ops_exceeding_memory(dag)
    got = [n for n, _ in res]
    want = sorted((n for n, o in ops.items() if o.projected_mem > o.allowed_mem), key=lambda n: -ops[n].projected_mem)
    mem = {n: (o.projected_mem, o.allowed_mem) for n, o in ops.items()}
    if sorted(got) != sorted(want):
        return True, f"(projected, allowed) = {mem}: reported over budget {got}, but exactly {want} exceed their budget"
    if [ops[n].projected_mem for n in got] != sorted((ops[n].projected_mem for n in got), reverse=True):
        return True, f"(projected, allowed) = {mem}: {got} is not ordered worst first"
    return False, f"(projected, allowed) = {mem}: reported {got}, as required"


def run_validate(model, k):
    import networkx as nx

    from cubed.core.plan import FinalizedPlan

    ops = [(f"op-{i:03}", _mk_op(model, f"op{i}")) for i in range(k)]
    fp = FinalizedPlan.__new__(FinalizedPlan)
    fp._ops_exceeding_memory, fp.dag, fp.array_names = ops, nx.MultiDiGraph(), ()
    try:
        fp.validate()
        raised = None
    except ValueError as e:
        raised = e
    if k > 0 and raised is None:
        return True, f"{k} operation(s) exceed their budget and validate() returned"
    if k == 0 and raised is not None:
        return True, f"nothing exceeds the budget and validate() raised {raised}"
    return False, "validate() raises exactly when some operation exceeds its budget"


NAMED_SHAPES = {
    "chain": [("a", "b"), ("b", "c")],
    "diamond": [("a", "b"), ("a", "c"), ("b", "d"), ("c", "d")],
    "independent": [("a", "c"), ("b", "c")],
    "fan-out": [("a", "b"), ("a", "c")],
    "single": [],
    "repeated-edge": [("a", "c"), ("a", "c"), ("b", "d"), ("d", "c")],
    "repeated-edge-chain": [("a", "b"), ("a", "b"), ("b", "c"), ("a", "c")],
    "repeated-edge-deep": [("a", "c"), ("a", "c"), ("b", "d"), ("d", "e"), ("e", "c")],
    "unequal-depth-join": [("a", "d"), ("b", "c"), ("c", "d")],
}


def _shape_dag(shape, model, computed=()):
    import networkx as nx

    edges = NAMED_SHAPES[shape] if isinstance(shape, str) else [tuple(e) for e in shape]
    ops = sorted({x for e in edges for x in e}) or ["a"]
    dag = nx.MultiDiGraph()
    for o in ops:
        op = _mk_op(model, o)
        dag.add_node(f"op-{o}", name=f"op-{o}", type="op", primitive_op=op, pipeline=op.pipeline, op_name="blockwise")
        dag.add_node(f"array-{o}", name=f"array-{o}", type="array", target=op.target_array)
        dag.add_edge(f"op-{o}", f"array-{o}")
        if o in computed:
            dag.nodes[f"op-{o}"]["computed"] = True
    for u, v in edges:
        dag.add_edge(f"array-{u}", f"op-{v}")
    dag.add_node("op-src", name="op-src", type="op", op_name="asarray")
    dag.add_node("array-src", name="array-src", type="array", target=None)
    dag.add_edge("op-src", "array-src")
    dag.add_edge("array-src", f"op-{ops[0]}")
    return dag, ops


def run_visit_generations(shape, computed, fn):
    """the real visit_node_generations / visit_nodes on the DAG shape: every live op once, each after all its producers"""
    import networkx as nx

    from cubed.runtime import pipeline as P

    dag, ops = _shape_dag(shape, {}, computed)
    if fn == "nodes":
        gens = [[x] for x in P.visit_nodes(dag)]
    else:
        gens = [list(g) for g in P.visit_node_generations(dag)]
    pos, flat = {}, []
    for gi, g in enumerate(gens):
        for name, _node in g:
            flat.append(name)
            pos.setdefault(name, gi)
    live = [f"op-{o}" for o in ops if o not in computed]
    if sorted(flat) != sorted(live):
        return True, f"yielded {flat}, live operations are {live}"
    for u in live:
        for v in live:
            if u != v and nx.has_path(dag, u, v) and not pos[u] < pos[v]:
                return True, f"{v} (generation {pos[v]}) is not after its producer {u} (generation {pos[u]}): {gens and [[n for n, _ in g] for g in gens]}"
    return False, f"generations {[[n for n, _ in g] for g in gens]}: every operation after its producers"


def run_plan_totals(shape, model):
    from cubed.core.plan import FinalizedPlan

    dag, ops = _shape_dag(shape, model)
    for o in ops:  # targets that count as materialised storage arrays are needed for the byte totals only
        pass
    import cubed.core.plan as PL

    orig = PL.is_storage_array
    PL.is_storage_array = lambda a: a is not None
    try:
        fp = FinalizedPlan(dag, (f"array-{ops[-1]}",), True)
    finally:
        PL.is_storage_array = orig
    want = sum(dag.nodes[f"op-{o}"]["primitive_op"].num_tasks for o in ops)
    if fp.num_tasks != want:
        return True, f"plan advertises {fp.num_tasks} tasks, its operations {[dag.nodes[f'op-{o}']['primitive_op'].num_tasks for o in ops]} sum to {want}"
    if fp.num_primitive_ops != len(ops):
        return True, f"num_primitive_ops {fp.num_primitive_ops} != {len(ops)}"
    return False, f"num_tasks {fp.num_tasks} == sum over {len(ops)} operations"


def _mk_full_op(model, label, n_inputs=1):
    """a real PrimitiveOperation with a real BlockwiseSpec and apply_blockwise pipeline (a fuse candidate), built from
    the model's values for the symbols the contracts name <label>_*"""
    import numpy as np

    from cubed.primitive.blockwise import BlockwiseSpec, apply_blockwise
    from cubed.primitive.types import PrimitiveOperation
    from cubed.runtime.types import CubedPipeline

    g = lambda k, d: int(model.get(f"{label}_{k}", d))  # noqa: E731

    class _T:
        pass

    t = _T()
    t.shape, t.chunks, t.dtype = (max(1, g("n", 1)),), (max(1, g("chunk", 1)),), np.dtype(f"V{max(1, g('itemsize', 1))}")
    nib = tuple(max(1, g(f"nib{i}", 1)) for i in range(n_inputs))
    spec = BlockwiseSpec(lambda k: None, lambda *a: None, nib, (1,), {}, {label: object()})
    pipe = CubedPipeline(apply_blockwise, f"{label}-pipeline", [], spec)
    return PrimitiveOperation(pipeline=pipe, source_array_names=[f"{label}_in{i}" for i in range(n_inputs)], target_array=t,
                              # the invariant general_blockwise establishes (and the contracts assume):
                              # projected_mem >= reserved_mem + chunk memory of the target
                              projected_mem=max(g("projected_mem", 0), g("reserved_mem", 0) + t.dtype.itemsize * t.chunks[0]),
                              allowed_mem=g("allowed_mem", 0), reserved_mem=g("reserved_mem", 0),
                              num_tasks=max(1, g("num_tasks", 1)), fusable_with_predecessors=True, fusable_with_successors=True)


def _peak(ops):
    """closed form of the modelled peak: max_i (sum_{j<i} chunkmem_j + projected_i)"""
    kept, best = 0, 0
    for o in ops:
        if o is None:
            continue
        best = max(best, kept + o.projected_mem)
        kept += o.target_array.dtype.itemsize * o.target_array.chunks[0]
    return best


def run_peak(model, k, none_at):
    from cubed.primitive.blockwise import peak_projected_mem

    ops = [None if none_at == i else _mk_full_op(model, f"p{i}") for i in range(k)]
    got, want = peak_projected_mem(ops), _peak(ops)
    desc = [(o.projected_mem, o.target_array.dtype.itemsize * o.target_array.chunks[0]) if o else None for o in ops]
    if got != want:
        return True, f"(projected, chunk memory) per op {desc}: peak_projected_mem = {got}, the modelled peak is {want}"
    return False, f"(projected, chunk memory) per op {desc}: peak {got}"


def run_fuse_multiple(model, k, none_at):
    from cubed.primitive.blockwise import fuse_multiple

    op = _mk_full_op(model, "op", n_inputs=k)
    preds = [None if none_at == i else _mk_full_op(model, f"p{i}") for i in range(k)]
    try:
        fused = fuse_multiple(op, *preds)
    except Exception as e:  # noqa: BLE001
        return True, f"fuse_multiple raised {type(e).__name__}: {e}"
    want = max(op.projected_mem, _peak(preds))
    desc = dict(op=op.projected_mem, preds=[(p.projected_mem, p.target_array.dtype.itemsize * p.target_array.chunks[0]) if p else None for p in preds])
    if fused.projected_mem != want:
        return True, f"{desc}: fused projected_mem = {fused.projected_mem}, must be max(op, predecessor peak) = {want}"
    if fused.num_tasks != op.num_tasks or fused.allowed_mem != op.allowed_mem or fused.target_array is not op.target_array:
        return True, f"{desc}: fused op does not keep op's task count / budget / target"
    return False, f"{desc}: fused projected_mem {fused.projected_mem}"


def run_fuse_pair(model):
    from cubed.primitive.blockwise import fuse

    a, b = _mk_full_op(model, "a"), _mk_full_op(model, "b")
    b.num_tasks = a.num_tasks
    try:
        fused = fuse(a, b)
    except Exception as e:  # noqa: BLE001
        return True, f"fuse raised {type(e).__name__}: {e}"
    want = max(a.projected_mem, b.projected_mem)
    if fused.projected_mem != want or fused.num_tasks != b.num_tasks or fused.target_array is not b.target_array:
        return True, f"fuse(a, b) with projected {a.projected_mem}, {b.projected_mem}: fused projected {fused.projected_mem} (want {want}), tasks {fused.num_tasks}"
    return False, f"fused projected_mem {fused.projected_mem} == max({a.projected_mem}, {b.projected_mem})"
