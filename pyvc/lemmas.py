"""Lemma schemas whose ground instances the engine asserts as hints; each schema is proved here by z3
for arbitrary integers on every run, so instances are consequences, not assumptions."""
import time

import z3


def prove_schemas(timeout_ms=20000):
    a, b, k = z3.Ints("a b k")
    a1, a2, a3, q1, q2, q3 = z3.Ints("a1 a2 a3 q1 q2 q3")

    def quot(q, x):
        return z3.And(q * b <= x, x < (q + 1) * b)

    schemas = {
        "quotient-monotone: b>=1, q1=a1 div b, q2=a2 div b, a1<=a2 -> q1<=q2":
            z3.Implies(z3.And(b >= 1, quot(q1, a1), quot(q2, a2), a1 <= a2), q1 <= q2),
        "quotient-additive: b>=1, a1==q1*b, q3=a3 div b, q2=(a1+a3) div b -> q2==q1+q3":
            z3.Implies(z3.And(b >= 1, a1 == q1 * b, quot(q3, a3), quot(q2, a1 + a3)), q2 == q1 + q3),
        "mul-mod: b != 0 -> (b*k) % b == 0": z3.Implies(b != 0, (b * k) % b == 0),
        "mul-div: b != 0 -> (b*k) div b == k": z3.Implies(b != 0, (b * k) / b == k),
    }
    out = []
    for name, f in schemas.items():
        s = z3.Solver()
        s.set("timeout", timeout_ms)
        s.add(z3.Not(f))
        t0 = time.time()
        r = s.check()
        out.append(dict(name=name, result="discharged" if r == z3.unsat else str(r), solver_s=round(time.time() - t0, 4)))
    return out
