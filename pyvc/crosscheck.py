"""CPython cross-check of the interpreter (bounded; trust in the tool, not a proof of anything about cubed).

Two modes: concrete arguments, and the same arguments as *symbolic* integers pinned by assumptions (so that forking,
solver-decided branches and symbolic sequences are exercised on inputs whose answer CPython gives); functions that need
a contract's environment (assumed geomspace, offsets) are skipped in the symbolic mode and counted as such.

Pure functions of /repo that the contracts interpret are run on random *concrete* arguments twice: by the pyvc
interpreter (the same code path the symbolic runs use, with every value concrete) and by CPython in /venv.  Results —
returned values or the exception type — must agree.  A disagreement means the interpreter misreads Python: the check
reports itself broken (exit 3).  Recorded in the evidence under coverage.interpreter_crosscheck, never counted among
the obligations."""
from __future__ import annotations

import json
import os
import random
import subprocess

from . import sym
from .sym import PathCtx, PyExc, Unsupported

NATIVE_PY = "/venv/bin/python"

# (module, function, argument generator) — generators return (args, kwargs) of plain JSON-able values
ALG = "cubed.vendor.rechunker.algorithm"
RCH = "cubed.core.rechunk"
UT = "cubed.utils"
MEM = "cubed.primitive.memory"
MF = "cubed.array_api.manipulation_functions"
OPS = "cubed.core.ops"


def _shape(rng, nd, lo=1, hi=40):
    return [rng.randint(lo, hi) for _ in range(nd)]


def _chunks_for(rng, shape):
    return [rng.randint(1, max(1, s)) for s in shape]


def _grid(n, c):
    if n == 0:
        return [0]
    out = [c] * (n // c)
    if n % c:
        out.append(n % c)
    return out


def gen_cases(rng, n):
    cases = []
    for _ in range(n):
        nd = rng.randint(1, 3)
        shape = _shape(rng, nd)
        ch = _chunks_for(rng, shape)
        ch2 = _chunks_for(rng, shape)
        cases.append((ALG, "consolidate_chunks", [shape, ch, 8, rng.randint(8, 4000)], {}))
        cases.append((ALG, "consolidate_chunks", [shape, ch, 8, rng.randint(8, 4000), ch2], {}))
        cases.append((ALG, "_calculate_shared_chunks", [ch, ch2], {}))
        cases.append((ALG, "calculate_single_stage_io_ops", [shape, ch, ch2], {}))
        cases.append((ALG, "calculate_stage_chunks", [ch, ch2, rng.randint(1, 3)], {}))
        cases.append((ALG, "rechunking_plan", [shape, ch, ch2, 8, rng.randint(200, 100000)], {}))
        cases.append((ALG, "multistage_rechunking_plan", [shape, ch, ch2, 8, rng.randint(8, 64), rng.randint(200, 100000)], {}))
        cases.append((RCH, "_fix_copy_chunks", [shape, ch, ch2], {}))
        cases.append((RCH, "_multspace", [rng.randint(1, 50), rng.randint(1, 50), rng.randint(0, 3)], {}))
        cases.append((RCH, "calculate_regular_stage_chunks", [ch, ch2, rng.randint(1, 3)], {}))
        cases.append((RCH, "multistage_regular_rechunking_plan", [shape, ch, ch2, 8, rng.randint(8, 64), rng.randint(200, 100000)], {}))
        nb = [len(_grid(s, c)) for s, c in zip(shape, ch)]
        bid = [rng.randrange(x) for x in nb]
        cases.append((UT, "block_id_to_offset", [bid, nb], {}))
        cases.append((UT, "get_item", [[_grid(s, c) for s, c in zip(shape, ch)], bid], {}))
        cases.append((UT, "to_chunksize", [[_grid(s, c) for s, c in zip(shape, ch)]], {}))
        cases.append((UT, "array_size", [shape], {}))
        cases.append((UT, "normalize_shape", [rng.choice([shape, shape[0], None])], {}))
        cases.append((MEM, "calculate_projected_mem", [rng.randint(0, 100), [rng.randint(0, 100) for _ in range(rng.randint(0, 3))], rng.randint(0, 50), rng.randint(0, 100),
                                                       {"__BufferCopies__": [rng.randint(1, 2), rng.randint(1, 2)]}], {}))
        offs = [0]
        for _i in range(rng.randint(1, 3)):
            offs.append(offs[-1] + rng.randint(1, 9))
        a = rng.randint(0, offs[-1] - 1)
        b = rng.randint(a + 1, offs[-1])
        cases.append((MF, "_array_slices", [offs, a, b], {"__list__": True}))
        cases.append((MF, "_flip_num_input_blocks", [list(range(nd)), shape, ch], {}))
        cases.append((OPS, "smallest_blockdim", [[_grid(shape[0], ch[0]), _grid(shape[0], ch2[0])]], {}))
        cases.append((UT, "convert_to_bytes", [rng.choice([rng.randint(-5, 10 ** 6), float(rng.randint(0, 1000)), rng.randint(0, 99) + 0.5])], {}))
    return cases


_NATIVE = r'''
import importlib, json, sys
cases = json.loads(sys.stdin.read())
def norm(v):
    if isinstance(v, dict):
        return {str(k): norm(x) for k, x in v.items()}
    if isinstance(v, (list, tuple)):
        return [norm(x) for x in v]
    if isinstance(v, slice):
        return {"slice": [v.start, v.stop, v.step]}
    if isinstance(v, bool) or v is None or isinstance(v, (int, str)):
        return v
    if isinstance(v, float):
        return {"float": repr(v)}
    if hasattr(v, "__next__"):
        return [norm(x) for x in v]
    try:
        return int(v)
    except Exception:
        return repr(v)
def dec(v):
    if isinstance(v, dict) and "__BufferCopies__" in v:
        from cubed.primitive.memory import BufferCopies
        return BufferCopies(*v["__BufferCopies__"])
    if isinstance(v, list):
        return tuple(dec(x) for x in v)
    return v
out = []
for mod, fn, args, kw in cases:
    f = getattr(importlib.import_module(mod), fn)
    kw = dict(kw); as_list = kw.pop("__list__", False)
    try:
        r = f(*[dec(a) for a in args], **kw)
        if as_list:
            r = list(r)
        out.append({"ok": norm(r)})
    except Exception as e:
        out.append({"exc": type(e).__name__})
print("@@" + json.dumps(out))
'''


def _norm(v):
    from .interp import GenList, IObj

    if isinstance(v, dict):
        return {str(k): _norm(x) for k, x in v.items()}
    if isinstance(v, (list, tuple, GenList)):
        return [_norm(x) for x in v]
    if isinstance(v, slice):
        return {"slice": [_norm(v.start), _norm(v.stop), _norm(v.step)]}
    if isinstance(v, bool) or v is None or isinstance(v, (int, str)):
        return v
    if isinstance(v, float):
        return {"float": repr(v)}
    if isinstance(v, (sym.SInt, sym.SBool, sym.SReal)):
        import z3

        s = z3.simplify(v.t)
        if z3.is_int_value(s):
            return s.as_long()
        if z3.is_true(s) or z3.is_false(s):
            return z3.is_true(s)
        if z3.is_rational_value(s):
            return {"float": repr(float(s.as_fraction()))}
        return f"<sym {s}>"
    if isinstance(v, IObj):
        return {k: _norm(x) for k, x in v.attrs.items()}
    if hasattr(v, "__next__"):
        return [_norm(x) for x in v]
    return repr(v)


def _dec(it, v, symbolic=False):
    if isinstance(v, dict) and "__BufferCopies__" in v:
        BC = it.world.lookup("cubed.primitive.memory:BufferCopies")
        return it.call(BC, [_dec(it, x, symbolic) for x in v["__BufferCopies__"]], {})
    if isinstance(v, list):
        return tuple(_dec(it, x, symbolic) for x in v)
    if symbolic and isinstance(v, int) and not isinstance(v, bool):
        # the same value as a *symbolic* integer pinned by an assumption: exercises the symbolic code paths of the
        # interpreter (forking, symbolic sequences, solver-decided branches) on an input whose answer CPython gives
        x = it.ctx.fresh_int("xc")
        it.ctx.assume(x == v)
        return x
    return v


def _settle(ctx, v):
    """replace determined symbolic scalars by their values (model + entailment)"""
    import z3

    from .interp import GenList

    if isinstance(v, (sym.SInt, sym.SBool, sym.SReal)):
        s = z3.simplify(v.t)
        if z3.is_int_value(s) or z3.is_true(s) or z3.is_false(s) or z3.is_rational_value(s):
            return v
        r, m = ctx._check()
        if m is not None:
            val = m.eval(v.t, model_completion=True)
            if ctx.entails(v.t == val):
                return sym.wrap(val)
        return v
    if isinstance(v, tuple):
        return tuple(_settle(ctx, x) for x in v)
    if isinstance(v, (list, GenList)):
        return [_settle(ctx, x) for x in v]
    if isinstance(v, dict):
        return {k: _settle(ctx, x) for k, x in v.items()}
    if isinstance(v, slice):
        return slice(_settle(ctx, v.start), _settle(ctx, v.stop), _settle(ctx, v.step))
    return v


def run(seed=0, n=6, repo="/repo", symbolic=False):
    from .interp import Interp

    rng = random.Random(seed)
    cases = gen_cases(rng, n)
    p = subprocess.run([NATIVE_PY, "-c", _NATIVE], input=json.dumps(cases), capture_output=True, text=True, timeout=600,
                       cwd="/tmp", env=dict(os.environ, PYTHONPATH=repo))
    truth = None
    for line in p.stdout.splitlines():
        if line.startswith("@@"):
            truth = json.loads(line[2:])
    table = {}
    if truth is None:
        return {"native helper": dict(cases=0, disagreements=[f"native run failed: {p.stderr[-400:]}"])}
    for (mod, fn, args, kw), want in zip(cases, truth):
        row = table.setdefault(f"{mod}:{fn}", dict(cases=0, disagreements=[], skipped=0))
        ctx = PathCtx([], timeout_ms=5000, max_decisions=100000)
        sym.set_cur(ctx)
        try:
            it = Interp(ctx)
            from .pybuiltins import install_builtins  # noqa: F401
        except ImportError:
            pass
        try:
            it = Interp(ctx)
            f = it.world.lookup(f"{mod}:{fn}")
            kw2 = dict(kw)
            as_list = kw2.pop("__list__", False)
            try:
                r = it.call(f, [_dec(it, a, symbolic) for a in args], kw2)
                if as_list:
                    r = list(it.iterate(r))
                if symbolic:
                    from .symseq import SymSeq

                    if isinstance(r, SymSeq):
                        r = list(r._pyvc_iter(it)) if r.concrete_len() else r
                    r = _settle(ctx, r)
                got = {"ok": _norm(r)}
            except PyExc as e:
                got = {"exc": e.tname}
            row["cases"] += 1
            if json.dumps(got, sort_keys=True) != json.dumps(want, sort_keys=True):
                row["disagreements"].append(f"{fn}{tuple(args)!r:.200}: interpreter {json.dumps(got)[:200]} vs CPython {json.dumps(want)[:200]}")
        except Unsupported as u:
            row["skipped"] += 1
            row.setdefault("unsupported", str(u)[:120])
        except Exception as e:  # noqa: BLE001
            row["disagreements"].append(f"{fn}{tuple(args)!r:.160}: interpreter crashed: {type(e).__name__}: {str(e)[:160]}")
        finally:
            sym.set_cur(None)
    return table


if __name__ == "__main__":
    import sys

    t = run(int(sys.argv[1]) if len(sys.argv) > 1 else 0, int(sys.argv[2]) if len(sys.argv) > 2 else 6, symbolic=len(sys.argv) > 3 and sys.argv[3] == "symbolic")
    print(json.dumps({k: [v["cases"], v.get("skipped", 0)] for k, v in t.items()}))
    bad = {k: v for k, v in t.items() if v["disagreements"]}
    for k, v in bad.items():
        print("DISAGREEMENT", k, v["disagreements"][:2])
    for k, v in t.items():
        if v.get("unsupported"):
            print("UNSUPPORTED", k, v["unsupported"])
    sys.exit(3 if bad else 0)
