"""Mixed concrete/symbolic interpreter over the real AST of /repo.

Concrete python values stay native python values; symbolic scalars are `sym.SInt/SBool/SReal`
whose operators build z3 terms.  Anything the interpreter cannot model raises `Unsupported`
(-> the obligation set is *undecided*, never 'proved' and never a violation).
"""
from __future__ import annotations

import ast

import z3
import builtins as _bi
import functools
import inspect
import operator

from . import sym
from .source import ExternalStub, IModule, World
from .sym import PathBudget, PathInfeasible, PyExc, SBool, SInt, SReal, Unsupported, deep_sym


class _Return(Exception):
    def __init__(self, v):
        self.v = v


class _Break(Exception):
    pass


class _Continue(Exception):
    pass


_CONTROL = (_Return, _Break, _Continue, PyExc, Unsupported, PathInfeasible, PathBudget, sym.PathEnd)


class Frame:
    __slots__ = ("locals", "parent", "module", "func", "gdecl", "nldecl", "yields", "is_module", "loop_n", "qual", "is_class")

    def __init__(self, module, parent=None, func=None, qual=""):
        self.locals = {}
        self.parent = parent
        self.module = module
        self.func = func
        self.gdecl = set()
        self.nldecl = set()
        self.yields = None
        self.is_module = False
        self.is_class = False
        self.loop_n = 0
        self.qual = qual


class Closure:
    """An interpreted function value (def or lambda) closed over its defining frame."""

    _pyvc_closure = True

    def __init__(self, interp, node, frame, module, qual, defaults, kw_defaults):
        self.interp = interp
        self.node = node
        self.frame = frame
        self.module = module
        self.qual = qual  # "module:outer.inner"
        self.defaults = defaults
        self.kw_defaults = kw_defaults
        self.is_gen = _is_generator(node)
        self.is_async = isinstance(node, ast.AsyncFunctionDef)
        self.__name__ = getattr(node, "name", "<lambda>")
        self.__doc__ = None
        self.__qualname__ = qual.partition(":")[2]
        self.__module__ = module.name if module else None
        self.attrs = {}

    def __call__(self, *args, **kwargs):
        return self.interp.call_closure(self, list(args), kwargs)

    def __get__(self, obj, objtype=None):
        return self

    def __repr__(self):
        return f"<closure {self.qual}>"

    def param_names(self):
        a = self.node.args
        return [x.arg for x in a.posonlyargs + a.args + a.kwonlyargs], a.kwarg is not None


def _is_generator(node):
    if isinstance(node, ast.Lambda):
        return False
    for n in _walk_own(node):
        if isinstance(n, (ast.Yield, ast.YieldFrom)):
            return True
    return False


def _walk_own(fn):
    """Walk a function body without descending into nested defs/lambdas/classes."""
    stack = list(fn.body) if not isinstance(fn, ast.Lambda) else [fn.body]
    stack = [n for n in stack if not isinstance(n, (ast.FunctionDef, ast.AsyncFunctionDef, ast.ClassDef))]
    while stack:
        n = stack.pop()
        yield n
        for ch in ast.iter_child_nodes(n):
            if isinstance(ch, (ast.FunctionDef, ast.AsyncFunctionDef, ast.Lambda, ast.ClassDef)):
                continue
            stack.append(ch)


class BoundMethod:
    _pyvc_closure = True

    def __init__(self, fn, self_obj):
        self.fn = fn
        self.self_obj = self_obj
        self.__name__ = getattr(fn, "__name__", "method")

    def __call__(self, *a, **k):
        return self.fn(self.self_obj, *a, **k)

    def __repr__(self):
        return f"<bound {self.fn!r}>"

    def __eq__(self, o):
        return isinstance(o, BoundMethod) and o.fn is self.fn and o.self_obj is self.self_obj

    def __hash__(self):
        return hash((id(self.fn), id(self.self_obj)))


class IProperty:
    def __init__(self, fget):
        self.fget = fget


class IClassMethod:
    def __init__(self, fn):
        self.fn = fn


class IStaticMethod:
    def __init__(self, fn):
        self.fn = fn


class IClass:
    _pyvc_class = True

    def __init__(self, interp, name, module, qual, bases, ns, dataclass=None):
        self.interp = interp
        self.name = name
        self.__name__ = name
        self.module = module
        self.qual = qual
        self.bases = bases
        self.ns = ns
        self.dataclass = dataclass  # None or dict(frozen=, eq=, fields=[(name, has_default, default_node)])

    def mro(self):
        out = [self]
        for b in self.bases:
            if isinstance(b, IClass):
                for c in b.mro():
                    if c not in out:
                        out.append(c)
        return out

    def lookup(self, name):
        for c in self.mro():
            if name in c.ns:
                return c.ns[name], c
        return None, None

    def is_exception(self):
        for c in self.mro():
            for b in c.bases:
                if isinstance(b, type) and issubclass(b, BaseException):
                    return True
        return False

    def native_exc_base(self):
        for c in self.mro():
            for b in c.bases:
                if isinstance(b, type) and issubclass(b, BaseException):
                    return b
        return None

    def all_fields(self):
        fields = []
        for c in reversed(self.mro()):
            if c.dataclass:
                for f in c.dataclass["fields"]:
                    fields = [g for g in fields if g[0] != f[0]] + [f]
        return fields

    def __call__(self, *args, **kwargs):
        return self.interp.instantiate(self, list(args), kwargs)

    def __repr__(self):
        return f"<iclass {self.qual}>"

    def __mro_entries__(self, bases):
        return ()


class IObj:
    _pyvc_obj = True

    def __init__(self, cls, attrs=None):
        object.__setattr__(self, "cls", cls)
        object.__setattr__(self, "attrs", attrs if attrs is not None else {})

    def __getattr__(self, name):
        if name.startswith("__") and name.endswith("__"):
            raise AttributeError(name)
        cls = object.__getattribute__(self, "cls")
        try:
            return cls.interp.getattr_(self, name)
        except PyExc as e:
            if e.etype is AttributeError:
                raise AttributeError(name)
            raise

    def __setattr__(self, name, value):
        self.cls.interp.setattr_(self, name, value)

    def _dc_key(self):
        return tuple(self.attrs.get(f[0]) for f in self.cls.all_fields())

    def __eq__(self, other):
        m, _ = self.cls.lookup("__eq__")
        if m is not None:
            return m(self, other)
        if self.cls.dataclass and self.cls.dataclass.get("eq", True):
            if not (isinstance(other, IObj) and other.cls is self.cls):
                return False
            return self._dc_key() == other._dc_key()
        return self is other

    def __ne__(self, other):
        r = self.__eq__(other)
        if isinstance(r, SBool):
            return ~r
        return not r

    def __hash__(self):
        m, _ = self.cls.lookup("__hash__")
        if m is not None:
            return m(self)
        if self.cls.dataclass and self.cls.dataclass.get("frozen"):
            return hash(self._dc_key())
        return id(self)

    def __iter__(self):
        m, _ = self.cls.lookup("__iter__")
        if m is None:
            raise TypeError(f"{self.cls.name} object is not iterable")
        return iter(m(self))

    def __repr__(self):
        m, _ = self.cls.lookup("__repr__")
        if m is not None:
            try:
                return str(m(self))
            except Exception:
                pass
        return f"<{self.cls.name} {self.attrs}>"

    def __str__(self):
        m, _ = self.cls.lookup("__str__")
        if m is not None:
            try:
                return str(m(self))
            except Exception:
                pass
        return self.__repr__()

    def __call__(self, *a, **k):
        m, _ = self.cls.lookup("__call__")
        if m is None:
            raise TypeError(f"{self.cls.name} object is not callable")
        return m(self, *a, **k)


class IExcValue:
    """The value bound by `except X as e` / produced by `raise X(...)` for native exception types."""

    def __init__(self, etype, args):
        self.etype = etype
        self.args = tuple(args)

    def __str__(self):
        return ", ".join(str(a) for a in self.args)


class SymStr(str):
    """A formatted string with symbolic fields: behaves as the placeholder text natively; `.parts` keeps the
    literal pieces and (value, format_spec, conversion) fields for contracts that reason about the text."""

    def __new__(cls, text, parts):
        o = super().__new__(cls, text)
        o.parts = list(parts)
        return o


def _hashable(k):
    try:
        hash(k)
        return True
    except Unsupported:
        return False
    except TypeError:
        return True  # a genuine TypeError (unhashable type) is Python's own behaviour: let the native dict raise it


class SymKeyDict(dict):
    """A dict created by interpreted code.  Keys that hash natively live in the dict itself; keys containing symbolic
    values (e.g. a frozen dataclass with symbolic fields) live in an association list and are compared with the
    solver-decided `==` (forking on equality), against *all* keys."""

    def __init__(self, *a, **k):
        dict.__init__(self, *a, **k)
        self.syms = []

    def _find(self, interp, key):
        """-> ("native", key) | ("sym", index) | None"""
        hk = _hashable(key)
        if hk and dict.__contains__(self, key):
            return ("native", key)
        for i, (k2, _v) in enumerate(self.syms):
            if k2 is key or interp.truth(interp.compare(ast.Eq(), k2, key)):
                return ("sym", i)
        if not hk:
            for k2 in list(dict.keys(self)):
                if type(k2) is type(key) or isinstance(k2, IObj) and isinstance(key, IObj):
                    if interp.truth(interp.compare(ast.Eq(), k2, key)):
                        return ("native", k2)
        return None

    def _pyvc_getitem(self, interp, key):
        if not self.syms and _hashable(key):
            return NotImplemented
        f = self._find(interp, key)
        if f is None:
            raise PyExc(KeyError, (key,))
        return dict.__getitem__(self, f[1]) if f[0] == "native" else self.syms[f[1]][1]

    def _pyvc_setitem(self, interp, key, v):
        if not self.syms and _hashable(key):
            return NotImplemented
        f = self._find(interp, key)
        if f is None:
            if _hashable(key):
                dict.__setitem__(self, key, v)
            else:
                self.syms.append((key, v))
        elif f[0] == "native":
            dict.__setitem__(self, f[1], v)
        else:
            self.syms[f[1]] = (self.syms[f[1]][0], v)
        return None

    def _pyvc_contains(self, interp, key):
        if not self.syms and _hashable(key):
            return NotImplemented
        return self._find(interp, key) is not None

    def _pyvc_len(self, interp):
        return dict.__len__(self) + len(self.syms)

    def _pyvc_iter(self, interp):
        return list(dict.keys(self)) + [k for k, _ in self.syms]

    def _pyvc_getattr(self, interp, name):
        if not self.syms and name not in ("get", "setdefault", "pop", "copy"):
            return getattr(self, name)
        if name == "get":
            def get(key, default=None):
                f = self._find(interp, key)
                if f is None:
                    return default
                return dict.__getitem__(self, f[1]) if f[0] == "native" else self.syms[f[1]][1]
            return get
        if name == "setdefault":
            def setdefault(key, default=None):
                f = self._find(interp, key)
                if f is None:
                    self._pyvc_setitem(interp, key, default) is NotImplemented and dict.__setitem__(self, key, default)
                    return default
                return dict.__getitem__(self, f[1]) if f[0] == "native" else self.syms[f[1]][1]
            return setdefault
        if name == "pop":
            def pop(key, *d):
                f = self._find(interp, key)
                if f is None:
                    if d:
                        return d[0]
                    raise PyExc(KeyError, (key,))
                if f[0] == "native":
                    return dict.pop(self, f[1])
                return self.syms.pop(f[1])[1]
            return pop
        if name == "copy":
            def copy():
                o = SymKeyDict(self)
                o.syms = list(self.syms)
                return o
            return copy
        if name == "keys":
            return lambda: list(dict.keys(self)) + [k for k, _ in self.syms]
        if name == "values":
            return lambda: list(dict.values(self)) + [v for _, v in self.syms]
        if name == "items":
            return lambda: list(dict.items(self)) + list(self.syms)
        if name == "clear":
            def clear():
                dict.clear(self)
                self.syms = []
            return clear
        raise Unsupported(f"dict.{name} on a dict with symbolic keys")


class CachedFn:
    """functools.lru_cache / cache around an interpreted function: results are remembered per argument tuple, keys are
    compared the way a dict compares them — identity, else the class's interpreted __eq__ (a class that defines
    __eq__ without __hash__ is unhashable), else native ==.  (Eviction is not modelled: maxsize is unbounded.)"""

    _pyvc_closure = True

    def __init__(self, interp, fn):
        self.interp, self.fn = interp, fn
        self.entries = []
        self.__name__ = getattr(fn, "__name__", "cached")
        self.qual = getattr(fn, "qual", None)

    def _eq(self, a, b):
        it = self.interp
        if a is b:
            return True
        if isinstance(a, IObj) or isinstance(b, IObj):
            if not (isinstance(a, IObj) and isinstance(b, IObj)):
                return False
            m, _ = a.cls.lookup("__eq__")
            if m is None:
                if a.cls.dataclass and a.cls.dataclass.get("eq", True):
                    return it.truth(a == b)
                return False
            h, _ = a.cls.lookup("__hash__")
            if h is None:
                raise PyExc(TypeError, (f"unhashable type: {a.cls.name!r}",))
            r = it.call(m, [a, b], {})
            if r is NotImplemented:
                return False
            return it.truth(r)
        if isinstance(a, (tuple, list)) and isinstance(b, (tuple, list)) and type(a) is type(b):
            return len(a) == len(b) and all(self._eq(x, y) for x, y in zip(a, b))
        try:
            return it.truth(it.compare(ast.Eq(), a, b))
        except Unsupported:
            return False

    def __call__(self, *args, **kwargs):
        key = (tuple(args), tuple(sorted(kwargs.items())))
        for k2, v in self.entries:
            if len(k2[0]) == len(key[0]) and len(k2[1]) == len(key[1]) and all(self._eq(x, y) for x, y in zip(k2[0], key[0])) \
                    and all(n1 == n2 and self._eq(x, y) for (n1, x), (n2, y) in zip(k2[1], key[1])):
                self.interp.ctx.effect("cache-hit", self.__name__)
                return v
        v = self.interp.call(self.fn, list(args), dict(kwargs))
        self.entries.append((key, v))
        return v

    def cache_clear(self):
        self.entries = []


class OpaqueFn:
    """An uninterpreted function value: may be passed around and wrapped in functools.partial, never executed."""

    _pyvc_opaque = True
    _pyvc_is_gen = False

    def __init__(self, label, keywords=()):
        self._label = label
        self.keywords = tuple(keywords)
        self._pyvc_keywords = tuple(keywords)
        self.__name__ = label

    def __call__(self, *a, **k):
        raise Unsupported(f"call of uninterpreted function {self._label}")

    def __repr__(self):
        return f"<opaque-fn {self._label}>"


class Opaque:
    """An uninterpreted object (a block function, a dtype, a store ...): identity only."""

    _pyvc_opaque = True

    def __init__(self, label, **attrs):
        self.__dict__["_label"] = label
        self.__dict__.update(attrs)

    def __repr__(self):
        return f"<opaque {self._label}>"


_BINOPS = {
    ast.Add: operator.add, ast.Sub: operator.sub, ast.Mult: operator.mul, ast.Div: operator.truediv,
    ast.FloorDiv: operator.floordiv, ast.Mod: operator.mod, ast.Pow: operator.pow,
    ast.BitAnd: operator.and_, ast.BitOr: operator.or_, ast.BitXor: operator.xor,
    ast.LShift: operator.lshift, ast.RShift: operator.rshift, ast.MatMult: operator.matmul,
}
_CMPOPS = {
    ast.Eq: operator.eq, ast.NotEq: operator.ne, ast.Lt: operator.lt, ast.LtE: operator.le,
    ast.Gt: operator.gt, ast.GtE: operator.ge,
}

SKIP_DECORATORS = {"overload", "abstractmethod", "wraps", "cached_property_placeholder"}
CACHE_DECORATORS = {"lru_cache", "cache", "functools.lru_cache", "functools.cache"}
DROPPED_CALL_PREFIXES = ("logger.", "logging.")


class Interp:
    def __init__(self, ctx):
        self.ctx = ctx
        ctx.interp = self
        self.world = World(self)
        self.depth = 0
        self.frame_stack = []  # active interpreted frames (innermost last)
        self.inflight = []  # argument lists of calls in progress (live-memory meter)
        self.max_depth = 60
        self.root_qual = None  # the function currently under verification: never summarised
        self.loop_specs = {}  # (qual, ordinal) -> LoopSpec
        self.builtins = dict(vars(_bi))
        from . import pybuiltins

        pybuiltins.install(self)
        self.call_hooks = []  # callables(interp, fn, args, kwargs) -> (handled, value)

    # ------------------------------------------------------------------ frames
    def module_frame(self, module: IModule):
        fr = Frame(module, qual=module.name + ":")
        fr.is_module = True
        fr.locals = module.globals
        return fr

    def lookup_name(self, name, frame: Frame):
        f = frame
        if name in frame.gdecl:
            return self._global(name, frame)
        while f is not None:
            if name in f.locals:
                return f.locals[name]
            f = f.parent
        return self._global(name, frame)

    def _global(self, name, frame):
        m = frame.module
        if m is not None and m.has(name):
            return m.get(name)
        if name in self.builtins:
            return self.builtins[name]
        raise PyExc(NameError, (name,))

    def assign_name(self, name, value, frame: Frame):
        if name in frame.gdecl:
            frame.module.globals[name] = value
            return
        if name in frame.nldecl:
            f = frame.parent
            while f is not None:
                if name in f.locals:
                    f.locals[name] = value
                    return
                f = f.parent
        frame.locals[name] = value

    # ------------------------------------------------------------------ definitions
    def make_def(self, node, frame, module):
        qual_prefix = frame.qual if frame is not None else module.name + ":"
        if frame is not None and frame.is_class:
            frame = frame.parent  # class bodies are not part of the lexical scope of their methods
        if isinstance(node, ast.ClassDef):
            return self.make_class(node, frame, module, qual_prefix)
        qual = qual_prefix + node.name if qual_prefix.endswith(":") else qual_prefix + "." + node.name
        fr = frame if frame is not None else self.module_frame(module)
        defaults = [self.eval(d, fr) for d in node.args.defaults]
        kw_defaults = [None if d is None else self.eval(d, fr) for d in node.args.kw_defaults]
        fn = Closure(self, node, frame, module, qual, defaults, kw_defaults)
        v = fn
        for dec in reversed(node.decorator_list):
            dn = _dec_name(dec)
            if dn in SKIP_DECORATORS:
                continue
            if dn in CACHE_DECORATORS:
                v = CachedFn(self, v)
                continue
            if dn == "property":
                v = IProperty(v)
            elif dn == "classmethod":
                v = IClassMethod(v)
            elif dn == "staticmethod":
                v = IStaticMethod(v)
            elif dn.endswith(".setter") or dn.endswith(".getter"):
                raise Unsupported(f"property setter {dn}")
            else:
                d = self.eval(dec, fr)
                v = self.call(d, [v], {})
        return v

    def make_class(self, node, frame, module, qual_prefix):
        qual = qual_prefix + node.name if qual_prefix.endswith(":") else qual_prefix + "." + node.name
        fr = frame if frame is not None else self.module_frame(module)
        bases = []
        for b in node.bases:
            try:
                bv = self.eval(b, fr)
            except (Unsupported, PyExc):
                bv = None
            bases.append(bv)
        import typing as _typing

        if any(b is _typing.NamedTuple for b in bases):
            # class X(NamedTuple): field: T ...  ->  a real named tuple type (fields in declaration order)
            import collections

            fields = [st.target.id for st in node.body if isinstance(st, ast.AnnAssign) and isinstance(st.target, ast.Name)]
            if any(isinstance(st, (ast.FunctionDef, ast.AsyncFunctionDef)) for st in node.body):
                raise Unsupported(f"NamedTuple class {node.name} with methods")
            return collections.namedtuple(node.name, fields)
        cfr = Frame(module, parent=frame, qual=qual)
        cfr.is_class = True
        dataclass = None
        for dec in node.decorator_list:
            dn = _dec_name(dec)
            if dn in ("dataclass", "dataclasses.dataclass"):
                dataclass = {"frozen": False, "eq": True, "fields": []}
                if isinstance(dec, ast.Call):
                    for kw in dec.keywords:
                        dataclass[kw.arg] = self.eval(kw.value, fr)
        for st in node.body:
            if isinstance(st, ast.AnnAssign) and isinstance(st.target, ast.Name):
                if dataclass is not None:
                    dataclass["fields"].append((st.target.id, st.value is not None, st.value))
                if st.value is not None:
                    cfr.locals[st.target.id] = self.eval(st.value, cfr)
            elif isinstance(st, ast.Expr) and isinstance(st.value, ast.Constant):
                continue  # docstrings (also field docstrings)
            else:
                self.exec_stmt(st, cfr)
        cls = IClass(self, node.name, module, qual, bases, dict(cfr.locals), dataclass)
        return cls

    def instantiate(self, cls: IClass, args, kwargs):
        if cls.is_exception():
            obj = IObj(cls, {"args": tuple(args)})
            init, _ = cls.lookup("__init__")
            if init is not None:
                self.call(init, [obj] + args, kwargs)
            return obj
        obj = IObj(cls, {})
        self.ctx.effect("alloc", id(obj), cls.name)
        init, _ = cls.lookup("__init__")
        if init is not None:
            self.call(init, [obj] + args, kwargs)
        elif any(c.dataclass for c in cls.mro()):
            fields = cls.all_fields()
            names = [f[0] for f in fields]
            if len(args) > len(names):
                raise PyExc(TypeError, (f"{cls.name}() takes {len(names)} positional arguments",))
            vals = dict(zip(names, args))
            for k, v in kwargs.items():
                if k not in names or k in vals:
                    raise PyExc(TypeError, (f"{cls.name}() got an unexpected keyword argument {k!r}",))
                vals[k] = v
            for fname, has_default, dnode in fields:
                if fname not in vals:
                    if not has_default:
                        raise PyExc(TypeError, (f"{cls.name}() missing argument {fname!r}",))
                    dv, _ = cls.lookup(fname)
                    vals[fname] = dv
            obj.attrs.update(vals)
            post, _ = cls.lookup("__post_init__")
            if post is not None:
                self.call(post, [obj], {})
        elif args or kwargs:
            raise PyExc(TypeError, (f"{cls.name}() takes no arguments",))
        return obj

    # ------------------------------------------------------------------ attribute access
    def getattr_(self, v, name):
        if isinstance(v, IObj):
            if name in v.attrs:
                return v.attrs[name]
            if name == "__class__":
                return v.cls
            m, owner = v.cls.lookup(name)
            if owner is None:
                ga, _ = v.cls.lookup("__getattr__")
                if ga is not None:
                    return self.call(ga, [v, name], {})
                raise PyExc(AttributeError, (f"{v.cls.name!r} object has no attribute {name!r}",))
            return self._bind(m, v, v.cls)
        if isinstance(v, IClass):
            if name == "__name__":
                return v.name
            m, owner = v.lookup(name)
            if owner is None:
                raise PyExc(AttributeError, (f"type object {v.name!r} has no attribute {name!r}",))
            if isinstance(m, IClassMethod):
                return BoundMethod(m.fn, v)
            if isinstance(m, IStaticMethod):
                return m.fn
            return m
        if isinstance(v, IModule):
            if v.has(name):
                return v.get(name)
            sub = self.world.module(f"{v.name}.{name}")
            if sub is not None:
                return sub
            raise PyExc(AttributeError, (f"module {v.name!r} has no attribute {name!r}",))
        if isinstance(v, Closure):
            if name in v.attrs:
                return v.attrs[name]
            if name in ("__name__", "__doc__", "__qualname__", "__module__"):
                return getattr(v, name)
            raise PyExc(AttributeError, (name,))
        h = getattr(type(v), "_pyvc_getattr", None)
        if h is not None:
            return h(v, self, name)
        try:
            return getattr(v, name)
        except AttributeError as e:
            raise PyExc(AttributeError, e.args)

    def _bind(self, m, obj, cls):
        if isinstance(m, IProperty):
            return self.call(m.fget, [obj], {})
        if isinstance(m, IClassMethod):
            return BoundMethod(m.fn, cls)
        if isinstance(m, IStaticMethod):
            return m.fn
        if isinstance(m, (Closure, CachedFn)):
            return BoundMethod(m, obj)
        return m

    def setattr_(self, v, name, value):
        if isinstance(v, IObj):
            if v.cls.dataclass and v.cls.dataclass.get("frozen"):
                raise PyExc(AttributeError, (f"cannot assign to field {name!r}",))
            self.ctx.effect("setattr", id(v), name)
            v.attrs[name] = value
            return
        if isinstance(v, Closure):
            v.attrs[name] = value
            return
        if isinstance(v, IModule):
            v.globals[name] = value
            return
        h = getattr(type(v), "_pyvc_setattr", None)
        if h is not None:
            return h(v, self, name, value)
        try:
            setattr(v, name, value)
        except AttributeError as e:
            raise PyExc(AttributeError, e.args)

    def hasattr_(self, v, name):
        try:
            self.getattr_(v, name)
            return True
        except PyExc as e:
            if e.etype is AttributeError:
                return False
            raise

    # ------------------------------------------------------------------ truth / iteration
    def truth(self, v):
        if isinstance(v, (SBool, SInt, SReal)):
            return bool(v)
        if isinstance(v, bool):
            return v
        h = getattr(type(v), "_pyvc_truth", None)
        if h is not None:
            return h(v, self)
        if isinstance(v, IObj):
            m, _ = v.cls.lookup("__bool__")
            if m is not None:
                return self.truth(self.call(m, [v], {}))
            m, _ = v.cls.lookup("__len__")
            if m is not None:
                return self.truth(self.call(m, [v], {}) != 0)
            return True
        if isinstance(v, (IClass, Closure, BoundMethod, Opaque)):
            return True
        return bool(v)

    def iterate(self, v, frame=None, node=None):
        """Return a python iterable over a concrete-length collection."""
        h = getattr(type(v), "_pyvc_iter", None)
        if h is not None:
            return h(v, self)
        if isinstance(v, IObj):
            m, _ = v.cls.lookup("__iter__")
            if m is None:
                raise PyExc(TypeError, (f"{v.cls.name!r} object is not iterable",))
            return self.iterate(self.call(m, [v], {}))
        if isinstance(v, (SInt, SBool, SReal)):
            raise PyExc(TypeError, ("symbolic scalar is not iterable",))
        try:
            return iter(v)
        except TypeError as e:
            raise PyExc(TypeError, e.args)

    # ------------------------------------------------------------------ calls
    def call(self, fn, args, kwargs):
        for hook in self.call_hooks:
            handled, val = hook(self, fn, args, kwargs)
            if handled:
                return val
        if isinstance(fn, Closure):
            return self.call_closure(fn, args, kwargs)
        if isinstance(fn, BoundMethod):
            return self.call(fn.fn, [fn.self_obj] + list(args), kwargs)
        if isinstance(fn, IClass):
            return self.instantiate(fn, list(args), kwargs)
        if isinstance(fn, functools.partial):
            kw = dict(fn.keywords)
            kw.update(kwargs)
            return self.call(fn.func, list(fn.args) + list(args), kw)
        if isinstance(fn, IObj):
            m, _ = fn.cls.lookup("__call__")
            if m is None:
                raise PyExc(TypeError, (f"{fn.cls.name!r} object is not callable",))
            return self.call(m, [fn] + list(args), kwargs)
        if isinstance(fn, IStaticMethod):
            return self.call(fn.fn, args, kwargs)
        return self.call_native(fn, args, kwargs)

    def native_name(self, fn):
        mod = getattr(fn, "__module__", None)
        qn = getattr(fn, "__qualname__", None) or getattr(fn, "__name__", None)
        if mod is None and hasattr(fn, "__self__") and inspect.ismodule(getattr(fn, "__self__", None)):
            mod = fn.__self__.__name__
        if qn is None:
            return None
        return f"{mod}.{qn}" if mod else qn

    def call_native(self, fn, args, kwargs):
        if not callable(fn):
            raise PyExc(TypeError, (f"{type(fn).__name__!r} object is not callable",))
        nm = self.native_name(fn)
        if nm is not None and nm in self.world.native_overrides:
            return self.world.native_overrides[nm](*args, **kwargs)
        try:
            return fn(*args, **kwargs)
        except _CONTROL:
            raise
        except RecursionError:
            raise Unsupported("recursion limit in native call")
        except Exception as e:  # noqa: BLE001
            if deep_sym(args) or deep_sym(kwargs) or isinstance(fn, ExternalStub):
                raise Unsupported(f"native call {nm or fn!r} failed on symbolic operands: {type(e).__name__}: {e}")
            raise PyExc(type(e), e.args)

    def call_closure(self, fn: Closure, args, kwargs):
        if fn.qual != self.root_qual or self.depth > 0:
            s = self.world.summaries.get(fn.qual)
            if s is not None and not (fn.qual == self.root_qual and self.depth == 0):
                return s(self, fn, list(args), dict(kwargs))
        if self.depth >= self.max_depth:
            raise Unsupported(f"call depth > {self.max_depth} at {fn.qual}")
        node = fn.node
        fr = Frame(fn.module, parent=fn.frame, func=fn, qual=fn.qual)
        self.bind_args(fn, fr, list(args), dict(kwargs))
        self.depth += 1
        self.frame_stack.append(fr)
        try:
            if isinstance(node, ast.Lambda):
                return self.eval(node.body, fr)
            if fn.is_gen:
                fr.yields = []
            try:
                self.exec_block(node.body, fr)
                ret = None
            except _Return as r:
                ret = r.v
            if fn.is_gen:
                if fn.is_async:
                    return AsyncGenList(fr.yields)
                return GenList(fr.yields)
            return ret
        finally:
            self.depth -= 1
            self.frame_stack.pop()

    def bind_args(self, fn: Closure, fr: Frame, args, kwargs):
        a = fn.node.args
        pos = a.posonlyargs + a.args
        npos = len(pos)
        loc = fr.locals
        if len(args) > npos and a.vararg is None:
            raise PyExc(TypeError, (f"{fn.__name__}() takes {npos} positional arguments but {len(args)} were given",))
        for p, v in zip(pos, args):
            loc[p.arg] = v
        if a.vararg is not None:
            loc[a.vararg.arg] = tuple(args[npos:])
        posonly = {p.arg for p in a.posonlyargs}
        extra = {}
        kwnames = {p.arg for p in a.args} | {p.arg for p in a.kwonlyargs}
        for k, v in kwargs.items():
            if k in kwnames and k not in posonly:
                if k in loc:
                    raise PyExc(TypeError, (f"{fn.__name__}() got multiple values for argument {k!r}",))
                loc[k] = v
            elif a.kwarg is not None:
                extra[k] = v
            else:
                raise PyExc(TypeError, (f"{fn.__name__}() got an unexpected keyword argument {k!r}",))
        if a.kwarg is not None:
            loc[a.kwarg.arg] = extra
        nd = len(fn.defaults)
        for i, p in enumerate(pos):
            if p.arg not in loc:
                j = i - (npos - nd)
                if j >= 0:
                    loc[p.arg] = fn.defaults[j]
                else:
                    raise PyExc(TypeError, (f"{fn.__name__}() missing required positional argument {p.arg!r}",))
        for p, d in zip(a.kwonlyargs, fn.kw_defaults):
            if p.arg not in loc:
                if d is None and fn.node.args.kw_defaults[a.kwonlyargs.index(p)] is None:
                    raise PyExc(TypeError, (f"{fn.__name__}() missing required keyword-only argument {p.arg!r}",))
                loc[p.arg] = d

    # ------------------------------------------------------------------ statements
    def exec_block(self, stmts, fr):
        for st in stmts:
            self.exec_stmt(st, fr)

    def exec_stmt(self, st, fr):
        m = getattr(self, "s_" + type(st).__name__, None)
        if m is None:
            raise Unsupported(f"statement {type(st).__name__} at line {getattr(st, 'lineno', '?')}")
        self.ctx.cur_line = (fr.qual, getattr(st, "lineno", 0))
        try:
            return m(st, fr)
        except PyExc as e:
            if e.where is None:
                e.where = f"{fr.qual}:{getattr(st, 'lineno', '?')}"
            raise

    def s_Pass(self, st, fr):
        pass

    def s_Expr(self, st, fr):
        v = st.value
        if isinstance(v, ast.Constant):
            return
        if isinstance(v, ast.Call):
            fn = _dotted(v.func)
            if fn and (fn.startswith(DROPPED_CALL_PREFIXES) or fn in ("print", "warnings.warn", "warn")):
                return  # dropped by the extraction (stated in DESIGN.md)
        self.eval(v, fr)

    def s_Return(self, st, fr):
        raise _Return(None if st.value is None else self.eval(st.value, fr))

    def s_Assign(self, st, fr):
        v = self.eval(st.value, fr)
        for t in st.targets:
            self.assign(t, v, fr)

    def s_AnnAssign(self, st, fr):
        if st.value is not None:
            self.assign(st.target, self.eval(st.value, fr), fr)

    def s_AugAssign(self, st, fr):
        t = st.target
        op = _BINOPS[type(st.op)]
        if isinstance(t, ast.Name):
            cur = self.lookup_name(t.id, fr)
            self.assign_name(t.id, self.binop(op, cur, self.eval(st.value, fr), st), fr)
        elif isinstance(t, ast.Attribute):
            obj = self.eval(t.value, fr)
            cur = self.getattr_(obj, t.attr)
            self.setattr_(obj, t.attr, self.binop(op, cur, self.eval(st.value, fr), st))
        elif isinstance(t, ast.Subscript):
            obj = self.eval(t.value, fr)
            idx = self.eval_index(t.slice, fr)
            cur = self.getitem(obj, idx)
            self.setitem(obj, idx, self.binop(op, cur, self.eval(st.value, fr), st))
        else:
            raise Unsupported("augmented assignment target")

    def assign(self, t, v, fr):
        if isinstance(t, ast.Name):
            self.assign_name(t.id, v, fr)
        elif isinstance(t, (ast.Tuple, ast.List)):
            star = [i for i, e in enumerate(t.elts) if isinstance(e, ast.Starred)]
            vals = list(self.iterate(v))
            if star:
                i = star[0]
                n_after = len(t.elts) - i - 1
                if len(vals) < len(t.elts) - 1:
                    raise PyExc(ValueError, ("not enough values to unpack",))
                for e, x in zip(t.elts[:i], vals[:i]):
                    self.assign(e, x, fr)
                self.assign(t.elts[i].value, list(vals[i: len(vals) - n_after]), fr)
                for e, x in zip(t.elts[i + 1:], vals[len(vals) - n_after:]):
                    self.assign(e, x, fr)
            else:
                if len(vals) != len(t.elts):
                    raise PyExc(ValueError, (f"unpack: expected {len(t.elts)} values, got {len(vals)}",))
                for e, x in zip(t.elts, vals):
                    self.assign(e, x, fr)
        elif isinstance(t, ast.Attribute):
            self.setattr_(self.eval(t.value, fr), t.attr, v)
        elif isinstance(t, ast.Subscript):
            self.setitem(self.eval(t.value, fr), self.eval_index(t.slice, fr), v)
        else:
            raise Unsupported(f"assignment target {type(t).__name__}")

    def s_Delete(self, st, fr):
        for t in st.targets:
            if isinstance(t, ast.Name):
                fr.locals.pop(t.id, None)
            elif isinstance(t, ast.Subscript):
                self.delitem(self.eval(t.value, fr), self.eval_index(t.slice, fr))
            else:
                raise Unsupported("del target")

    def s_If(self, st, fr):
        if self.truth(self.eval(st.test, fr)):
            self.exec_block(st.body, fr)
        else:
            self.exec_block(st.orelse, fr)

    _loop_ord_cache: dict = {}

    def loop_ordinal(self, fr, st):
        """static ordinal of a loop statement inside its function (pre-order over the function's own body)"""
        fn = fr.func.node if fr.func is not None else None
        if fn is None:
            fr.loop_n += 1
            return fr.loop_n
        key = id(fn)
        m = self._loop_ord_cache.get(key)
        if m is None:
            m = {}
            n = 0

            def walk(body):
                nonlocal n
                for x in body:
                    if isinstance(x, (ast.For, ast.AsyncFor, ast.While)):
                        n += 1
                        m[id(x)] = n
                    for fld in ("body", "orelse", "finalbody"):
                        sub = getattr(x, fld, None)
                        if isinstance(sub, list) and not isinstance(x, (ast.FunctionDef, ast.AsyncFunctionDef, ast.ClassDef)):
                            walk(sub)
                    for h in getattr(x, "handlers", []) or []:
                        walk(h.body)

            walk(fn.body if not isinstance(fn, ast.Lambda) else [])
            self._loop_ord_cache[key] = m
        return m.get(id(st), 0)

    def s_For(self, st, fr):
        it = self.eval(st.iter, fr)
        ordinal = self.loop_ordinal(fr, st)
        ls = self.loop_specs.get((fr.qual, ordinal))
        if ls is not None:
            return ls.run_for(self, st, fr, it)
        if getattr(type(it), "_pyvc_symlen", False) and not getattr(it, "concrete_len", lambda: False)():
            callers = " <- ".join(f.qual.split(":")[-1] for f in reversed(self.frame_stack[-4:-1]))
            raise Unsupported(f"loop over a symbolic-length collection ({type(it).__name__}) without an invariant: {fr.qual} loop #{ordinal}"
                              + (f" (called from {callers})" if callers else ""))
        broke = False
        for x in self.iterate(it):
            self.assign(st.target, x, fr)
            try:
                self.exec_block(st.body, fr)
            except _Break:
                broke = True
                break
            except _Continue:
                continue
        if not broke:
            self.exec_block(st.orelse, fr)

    s_AsyncFor = s_For

    def s_While(self, st, fr):
        ordinal = self.loop_ordinal(fr, st)
        ls = self.loop_specs.get((fr.qual, ordinal))
        if ls is not None:
            return ls.run_while(self, st, fr)
        n = 0
        broke = False
        while self.truth(self.eval(st.test, fr)):
            n += 1
            if n > 64:
                raise PathBudget(f"while loop without invariant exceeded 64 iterations: {fr.qual} loop #{ordinal}")
            try:
                self.exec_block(st.body, fr)
            except _Break:
                broke = True
                break
            except _Continue:
                continue
        if not broke:
            self.exec_block(st.orelse, fr)

    def s_Break(self, st, fr):
        raise _Break()

    def s_Continue(self, st, fr):
        raise _Continue()

    def s_FunctionDef(self, st, fr):
        v = self.make_def(st, fr if not fr.is_module else None, fr.module)
        self.assign_name(st.name, v, fr)

    s_AsyncFunctionDef = s_FunctionDef

    def s_ClassDef(self, st, fr):
        v = self.make_def(st, fr if not fr.is_module else None, fr.module)
        self.assign_name(st.name, v, fr)

    def s_Global(self, st, fr):
        fr.gdecl.update(st.names)

    def s_Nonlocal(self, st, fr):
        fr.nldecl.update(st.names)

    def s_Import(self, st, fr):
        for al in st.names:
            if al.asname:
                self.assign_name(al.asname, self.world.import_module(al.name), fr)
            else:
                self.assign_name(al.name.split(".")[0], self.world.import_module(al.name.split(".")[0]), fr)

    def s_ImportFrom(self, st, fr):
        base = st.module or ""
        if st.level:
            mod = fr.module
            pkg = mod.name.split(".")
            if not mod.path.endswith("__init__.py"):
                pkg = pkg[:-1]
            pkg = pkg[: len(pkg) - (st.level - 1)]
            base = ".".join(pkg + ([st.module] if st.module else []))
        for al in st.names:
            self.assign_name(al.asname or al.name, self.world.import_from(base, al.name), fr)

    def s_Assert(self, st, fr):
        if not self.truth(self.eval(st.test, fr)):
            raise PyExc(AssertionError, (), where=f"{fr.qual}:{st.lineno}")

    def s_Raise(self, st, fr):
        if st.exc is None:
            if self._exc_stack:
                raise self._exc_stack[-1]
            raise PyExc(RuntimeError, ("No active exception to reraise",))
        v = self.eval(st.exc, fr)
        raise self.to_pyexc(v, f"{fr.qual}:{st.lineno}")

    _exc_stack: list = []

    def to_pyexc(self, v, where=None):
        if isinstance(v, PyExc):
            return v
        if isinstance(v, type) and issubclass(v, BaseException):
            return PyExc(v, (), where=where)
        if isinstance(v, BaseException):
            return PyExc(type(v), v.args, where=where, value=v)
        if isinstance(v, IClass) and v.is_exception():
            return PyExc(v, (), where=where)
        if isinstance(v, IObj) and v.cls.is_exception():
            return PyExc(v.cls, v.attrs.get("args", ()), where=where, value=v)
        if isinstance(v, IExcValue):
            return PyExc(v.etype, v.args, where=where, value=v)
        h = getattr(type(v), "_pyvc_as_exception", None)
        if h is not None:
            return h(v, self, where)
        raise Unsupported(f"raise of {type(v).__name__}")

    def exc_matches(self, e: PyExc, h):
        if isinstance(h, tuple):
            return any(self.exc_matches(e, x) for x in h)
        et = e.etype
        if isinstance(h, type):
            if isinstance(et, type):
                return issubclass(et, h)
            if isinstance(et, IClass):
                nb = et.native_exc_base()
                return nb is not None and issubclass(nb, h)
            return False
        if isinstance(h, IClass):
            return isinstance(et, IClass) and h in et.mro()
        if isinstance(h, ExternalStub):
            return isinstance(et, ExternalStub) and et._qual == h._qual
        return False

    def s_Try(self, st, fr):
        try:
            try:
                self.exec_block(st.body, fr)
            except PyExc as e:
                for h in st.handlers:
                    ht = BaseException if h.type is None else self.eval(h.type, fr)
                    if self.exc_matches(e, ht):
                        if h.name:
                            fr.locals[h.name] = e.value if e.value is not None else IExcValue(e.etype, e.eargs)
                        self._exc_stack = self._exc_stack + [e]
                        try:
                            self.exec_block(h.body, fr)
                        finally:
                            self._exc_stack = self._exc_stack[:-1]
                        break
                else:
                    raise
            else:
                self.exec_block(st.orelse, fr)
        finally:
            if st.finalbody:
                self.exec_block(st.finalbody, fr)

    def s_With(self, st, fr):
        exits = []
        for item in st.items:
            cm = self.eval(item.context_expr, fr)
            val = cm
            ent = None
            if isinstance(cm, IObj):
                ent, _ = cm.cls.lookup("__enter__")
                if ent is None:
                    ent, _ = cm.cls.lookup("__aenter__")
                if ent is not None:
                    val = self.call(ent, [cm], {})
                ex, _ = cm.cls.lookup("__exit__")
                if ex is None:
                    ex, _ = cm.cls.lookup("__aexit__")
                if ex is not None:
                    exits.append((ex, cm))
            else:
                h = getattr(type(cm), "_pyvc_enter", None)
                if h is not None:
                    val = h(cm, self)
                elif hasattr(cm, "__enter__") and not deep_sym(cm):
                    val = cm.__enter__()
                    exits.append((None, cm))
            if item.optional_vars is not None:
                self.assign(item.optional_vars, val, fr)
        try:
            self.exec_block(st.body, fr)
        finally:
            for ex, cm in reversed(exits):
                if ex is None:
                    cm.__exit__(None, None, None)
                else:
                    self.call(ex, [cm, None, None, None], {})

    s_AsyncWith = s_With

    # ------------------------------------------------------------------ expressions
    def eval(self, node, fr):
        m = getattr(self, "e_" + type(node).__name__, None)
        if m is None:
            raise Unsupported(f"expression {type(node).__name__} at line {getattr(node, 'lineno', '?')}")
        return m(node, fr)

    def e_Constant(self, n, fr):
        return n.value

    def e_Name(self, n, fr):
        return self.lookup_name(n.id, fr)

    def e_Tuple(self, n, fr):
        return tuple(self._elts(n.elts, fr))

    def e_List(self, n, fr):
        return list(self._elts(n.elts, fr))

    def e_Set(self, n, fr):
        return self.make_set(self._elts(n.elts, fr))

    def make_set(self, items):
        from .symseq import SymHashSet

        return SymHashSet(self, list(items))

    def _elts(self, elts, fr):
        out = []
        for e in elts:
            if isinstance(e, ast.Starred):
                out.extend(self.iterate(self.eval(e.value, fr)))
            else:
                out.append(self.eval(e, fr))
        return out

    def e_Dict(self, n, fr):
        d = SymKeyDict()
        for k, v in zip(n.keys, n.values):
            if k is None:
                mv = self.eval(v, fr)
                if isinstance(mv, dict):
                    d.update(mv)
                else:
                    for kk in self.iterate(self.call(self.getattr_(mv, "keys"), [], {})):
                        d[kk] = self.getitem(mv, kk)
            else:
                self.setitem(d, self.eval(k, fr), self.eval(v, fr))
        return d

    def e_BinOp(self, n, fr):
        return self.binop(_BINOPS[type(n.op)], self.eval(n.left, fr), self.eval(n.right, fr), n)

    def binop(self, op, a, b, node=None):
        h = getattr(type(a), "_pyvc_binop", None) or getattr(type(b), "_pyvc_binop", None)
        if h is not None:
            r = h(self, op, a, b)
            if r is not NotImplemented:
                return r
        if op is operator.mul and (isinstance(a, SInt) or isinstance(b, SInt)):
            seq, k = (a, b) if isinstance(b, SInt) else (b, a)
            if isinstance(seq, (tuple, list)):
                from .symseq import RepSeq

                for v in (1, 0):  # a count the path condition pins to 0 or 1: an ordinary sequence
                    if self.ctx.quick_entails(sym.tz(k) == v):
                        return seq * v
                return RepSeq.make(self, seq, k)
        if op is operator.mod and isinstance(a, str):
            try:
                return a % (b if not deep_sym(b) else tuple("<sym>" for _ in (b if isinstance(b, tuple) else (b,))))
            except Exception:
                return a
        if op is operator.pow and (sym.is_sym(a) or sym.is_sym(b)):
            if isinstance(b, int) and 0 <= b <= 4:
                return a ** b
            raise Unsupported("symbolic exponentiation")
        try:
            return op(a, b)
        except _CONTROL:
            raise
        except ZeroDivisionError as e:
            raise PyExc(ZeroDivisionError, e.args)
        except Exception as e:  # noqa: BLE001
            if deep_sym(a) or deep_sym(b):
                raise Unsupported(f"binary {op.__name__} on {type(a).__name__},{type(b).__name__}: {e}")
            raise PyExc(type(e), e.args)

    def e_UnaryOp(self, n, fr):
        v = self.eval(n.operand, fr)
        if isinstance(n.op, ast.Not):
            if isinstance(v, SBool):
                return ~v
            return not self.truth(v)
        if isinstance(n.op, ast.USub):
            return -v
        if isinstance(n.op, ast.UAdd):
            return +v
        if isinstance(n.op, ast.Invert):
            return ~v
        raise Unsupported("unary op")

    def e_BoolOp(self, n, fr):
        is_and = isinstance(n.op, ast.And)
        v = None
        for i, e in enumerate(n.values):
            v = self.eval(e, fr)
            if i == len(n.values) - 1:
                return v
            t = self.truth(v)
            if is_and and not t:
                return v
            if not is_and and t:
                return v
        return v

    def e_Compare(self, n, fr):
        left = self.eval(n.left, fr)
        result = True
        for i, (op, rn) in enumerate(zip(n.ops, n.comparators)):
            right = self.eval(rn, fr)
            r = self.compare(op, left, right)
            if i == len(n.ops) - 1:
                return r
            if not self.truth(r):
                return r
            left = right
        return result

    def compare(self, op, a, b):
        t = type(op)
        if t is ast.Is:
            return a is b
        if t is ast.IsNot:
            return a is not b
        if t is ast.In:
            return self.contains(b, a)
        if t is ast.NotIn:
            r = self.contains(b, a)
            return ~r if isinstance(r, SBool) else (not r)
        h = getattr(type(a), "_pyvc_compare", None) or getattr(type(b), "_pyvc_compare", None)
        if h is not None:
            r = h(self, t, a, b)
            if r is not NotImplemented:
                return r
        try:
            return _CMPOPS[t](a, b)
        except _CONTROL:
            raise
        except Exception as e:  # noqa: BLE001
            if deep_sym(a) or deep_sym(b):
                raise Unsupported(f"comparison on {type(a).__name__},{type(b).__name__}: {e}")
            raise PyExc(type(e), e.args)

    def contains(self, container, item):
        h = getattr(type(container), "_pyvc_contains", None)
        if h is not None:
            r = h(container, self, item)
            if r is not NotImplemented:
                return r
        if isinstance(container, IObj):
            m, _ = container.cls.lookup("__contains__")
            if m is not None:
                return self.call(m, [container, item], {})
            return any(self.truth(x == item) for x in self.iterate(container))
        if isinstance(container, (dict, set, frozenset)) and sym.is_sym(item):
            if any(sym.is_sym(k) for k in container):
                raise Unsupported("symbolic membership in a hashed container with symbolic keys")
            for k in container:
                if isinstance(k, (int, float)) and not isinstance(k, bool) or isinstance(k, bool):
                    if self.truth(item == k):
                        return True
            return False
        if isinstance(container, (dict, set, frozenset)) and deep_sym(item):
            for k in container:
                if self.truth(self.compare(ast.Eq(), k, item)):
                    return True
            return False
        try:
            return item in container
        except _CONTROL:
            raise
        except TypeError as e:
            if deep_sym(item) or deep_sym(container):
                raise Unsupported(f"membership test: {e}")
            raise PyExc(TypeError, e.args)

    def e_IfExp(self, n, fr):
        return self.eval(n.body, fr) if self.truth(self.eval(n.test, fr)) else self.eval(n.orelse, fr)

    def e_Lambda(self, n, fr):
        defaults = [self.eval(d, fr) for d in n.args.defaults]
        kw_defaults = [None if d is None else self.eval(d, fr) for d in n.args.kw_defaults]
        return Closure(self, n, fr if not fr.is_module else None, fr.module, fr.qual + ".<lambda>", defaults, kw_defaults)

    def e_Attribute(self, n, fr):
        return self.getattr_(self.eval(n.value, fr), n.attr)

    def e_Slice(self, n, fr):
        return slice(
            None if n.lower is None else self.eval(n.lower, fr),
            None if n.upper is None else self.eval(n.upper, fr),
            None if n.step is None else self.eval(n.step, fr),
        )

    def eval_index(self, n, fr):
        return self.eval(n, fr)

    def e_Subscript(self, n, fr):
        return self.getitem(self.eval(n.value, fr), self.eval_index(n.slice, fr))

    def getitem(self, obj, idx):
        h = getattr(type(obj), "_pyvc_getitem", None)
        if h is not None:
            r = h(obj, self, idx)
            if r is not NotImplemented:
                return r
        if isinstance(obj, IObj):
            m, _ = obj.cls.lookup("__getitem__")
            if m is None:
                raise PyExc(TypeError, (f"{obj.cls.name!r} object is not subscriptable",))
            return self.call(m, [obj, idx], {})
        if isinstance(obj, IClass) or isinstance(obj, type) or _is_typing(obj):
            return obj  # generic alias such as Iterable[list[int]]: dropped annotation-level construct
        if isinstance(obj, (tuple, list, str, range)):
            if isinstance(idx, SBool):
                idx = sym.wrap(sym.tz(idx))
            if isinstance(idx, SInt):
                return self.pick(obj, idx)
            if isinstance(idx, slice) and deep_sym(idx):
                return self.sym_slice(obj, idx)
        if isinstance(obj, dict) and deep_sym(idx):
            for k in obj:
                if self.truth(self.compare(ast.Eq(), k, idx)):
                    return obj[k]
            raise PyExc(KeyError, ("<sym>",))
        try:
            return obj[idx]
        except _CONTROL:
            raise
        except (IndexError, KeyError, TypeError, ValueError) as e:
            if deep_sym(idx) or (deep_sym(obj) and not isinstance(obj, (tuple, list, dict))):
                raise Unsupported(f"subscript of {type(obj).__name__} with {type(idx).__name__}: {e}")
            raise PyExc(type(e), e.args)

    def pick(self, seq, k: SInt):
        """seq[k] for a concrete-length sequence and symbolic k: fork over the positions."""
        n = len(seq)
        c = self.ctx
        if c.branch(sym.tb((k < -n) | (k >= n))):
            raise PyExc(IndexError, ("index out of range",))
        if c.branch(sym.tb(k < 0)):
            k = k + n
        for i in range(n):
            if i == n - 1 or c.branch(sym.tb(k == i)):
                return seq[i]
        raise PathInfeasible()

    def sym_slice(self, seq, sl):
        """seq[a:b] with symbolic bounds on a concrete sequence: fork over the concrete positions."""
        if sl.step is not None and sl.step != 1:
            raise Unsupported("symbolic slice with a step")
        n = len(seq)

        def conc(v, default):
            if v is None:
                return default
            if isinstance(v, int):
                return v
            # clamp to [-n-1, n+1] then enumerate
            for i in range(-n, n + 1):
                if self.ctx.branch(sym.tb(v == i)):
                    return i
            if self.ctx.branch(sym.tb(v > n)):
                return n + 1
            return -n - 1

        a = conc(sl.start, 0)
        b = conc(sl.stop, n)
        return seq[a:b]

    def setitem(self, obj, idx, v):
        h = getattr(type(obj), "_pyvc_setitem", None)
        if h is not None:
            r = h(obj, self, idx, v)
            if r is not NotImplemented:
                return r
        if isinstance(obj, IObj):
            m, _ = obj.cls.lookup("__setitem__")
            if m is None:
                raise PyExc(TypeError, (f"{obj.cls.name!r} object does not support item assignment",))
            return self.call(m, [obj, idx, v], {})
        if isinstance(obj, list) and isinstance(idx, SInt):
            n = len(obj)
            if self.ctx.branch(sym.tb((idx < -n) | (idx >= n))):
                raise PyExc(IndexError, ("list assignment index out of range",))
            if self.ctx.branch(sym.tb(idx < 0)):
                idx = idx + n
            for i in range(n):
                if i == n - 1 or self.ctx.branch(sym.tb(idx == i)):
                    obj[i] = v
                    return
        if isinstance(obj, dict) and deep_sym(idx):
            raise Unsupported("dict store with a symbolic key")
        try:
            obj[idx] = v
        except _CONTROL:
            raise
        except Exception as e:  # noqa: BLE001
            if deep_sym(idx):
                raise Unsupported(f"item assignment: {e}")
            raise PyExc(type(e), e.args)

    def delitem(self, obj, idx):
        h = getattr(type(obj), "_pyvc_delitem", None)
        if h is not None:
            return h(obj, self, idx)
        try:
            del obj[idx]
        except _CONTROL:
            raise
        except Exception as e:  # noqa: BLE001
            if deep_sym(idx):
                raise Unsupported(f"item deletion: {e}")
            raise PyExc(type(e), e.args)

    def e_Starred(self, n, fr):
        raise Unsupported("starred expression outside call/display")

    def e_NamedExpr(self, n, fr):
        v = self.eval(n.value, fr)
        self.assign(n.target, v, fr)
        return v

    def e_JoinedStr(self, n, fr):
        parts = []
        sparts = []
        for v in n.values:
            if isinstance(v, ast.Constant):
                parts.append(str(v.value))
                sparts.append(str(v.value))
            else:
                try:
                    val = self.eval(v.value, fr)
                    if deep_sym(val):
                        parts.append("<sym>")
                        fs = ""
                        if v.format_spec is not None:
                            fs = self.e_JoinedStr(v.format_spec, fr)
                        sparts.append((val, str(fs), v.conversion))
                    else:
                        spec = ""
                        if v.format_spec is not None:
                            spec = self.e_JoinedStr(v.format_spec, fr)
                        if v.conversion == ord("r"):
                            val = repr(val)
                        elif v.conversion == ord("s"):
                            val = str(val)
                        parts.append(format(val, spec))
                        sparts.append(parts[-1])
                except _CONTROL:
                    raise
                except Exception:  # noqa: BLE001
                    parts.append("<fmt>")
                    sparts.append("<fmt>")
        if any(isinstance(p, tuple) for p in sparts):
            return SymStr("".join(parts), sparts)
        return "".join(parts)

    def e_FormattedValue(self, n, fr):
        return self.e_JoinedStr(ast.JoinedStr(values=[n]), fr)

    def e_Await(self, n, fr):
        v = self.eval(n.value, fr)
        h = getattr(type(v), "_pyvc_await", None)
        if h is not None:
            return h(v, self)
        return v

    def e_Yield(self, n, fr):
        f = fr
        while f is not None and f.yields is None:
            f = f.parent
        if f is None:
            raise Unsupported("yield outside generator")
        v = None if n.value is None else self.eval(n.value, fr)
        hook = getattr(self, "yield_hook", None)
        if hook is not None:
            hook(self, fr, v)
        f.yields.append(v)
        return None

    def e_YieldFrom(self, n, fr):
        f = fr
        while f is not None and f.yields is None:
            f = f.parent
        for x in self.iterate(self.eval(n.value, fr)):
            f.yields.append(x)
        return None

    # comprehensions ------------------------------------------------------
    def _comp(self, gens, fr, emit):
        def rec(i, cfr):
            if i == len(gens):
                emit(cfr)
                return
            g = gens[i]
            it = self.eval(g.iter, cfr if i > 0 else fr)
            if getattr(type(it), "_pyvc_symlen", False) and not it.concrete_len():
                raise _SymComp(it, i)
            for x in self.iterate(it):
                self.assign(g.target, x, cfr)
                if all(self.truth(self.eval(c, cfr)) for c in g.ifs):
                    rec(i + 1, cfr)

        cfr = Frame(fr.module, parent=fr, func=fr.func, qual=fr.qual)
        rec(0, cfr)

    def e_ListComp(self, n, fr):
        out = []
        try:
            self._comp(n.generators, fr, lambda cfr: out.append(self.eval(n.elt, cfr)))
        except _SymComp as sc:
            return self._sym_comp(n, fr, sc)
        return out

    def e_GeneratorExp(self, n, fr):
        out = []
        try:
            self._comp(n.generators, fr, lambda cfr: out.append(self.eval(n.elt, cfr)))
        except _SymComp as sc:
            return self._sym_comp(n, fr, sc)
        return GenList(out)

    def e_SetComp(self, n, fr):
        out = []
        self._comp(n.generators, fr, lambda cfr: out.append(self.eval(n.elt, cfr)))
        return self.make_set(out)

    def e_DictComp(self, n, fr):
        out = SymKeyDict()

        def emit(cfr):
            k = self.eval(n.key, cfr)
            self.setitem(out, k, self.eval(n.value, cfr))

        try:
            self._comp(n.generators, fr, emit)
        except _SymComp as sc:
            h = getattr(type(sc.it), "_pyvc_dictcomp", None)
            if h is None:
                raise Unsupported("dict comprehension over a symbolic-length collection")
            return h(sc.it, self, n, fr)
        return out

    def _sym_comp(self, n, fr, sc):
        """[elt for x in S] with S of symbolic length -> lazily mapped symbolic sequence."""
        if sc.index != 0 or len(n.generators) != 1:
            raise Unsupported("nested comprehension over a symbolic-length collection")
        g = n.generators[0]
        from .symseq import MapSeq

        def elem(x):
            cfr = Frame(fr.module, parent=fr, func=fr.func, qual=fr.qual)
            self.assign(g.target, x, cfr)
            if g.ifs:
                raise Unsupported("filtered comprehension over a symbolic-length collection")
            return self.eval(n.elt, cfr)

        # `c for _ in S`: the element does not mention the loop variable -> the constant repeated len(S) times
        tnames = {x.id for x in ast.walk(g.target) if isinstance(x, ast.Name)}
        enames = {x.id for x in ast.walk(n.elt) if isinstance(x, ast.Name)}
        if not g.ifs and not (tnames & enames) and not any(isinstance(x, (ast.Call, ast.Yield, ast.Await)) for x in ast.walk(n.elt)):
            v = self.eval(n.elt, fr)
            if isinstance(v, (int, SInt)) and not isinstance(v, bool):
                from .symseq import RepGrid

                return RepGrid(v, sc.it.length())
        # `x * 1 for x in grid` and the like: the element function is the identity on integers -> the sequence itself
        from .symseq import Grid

        if not g.ifs and isinstance(sc.it, Grid) and isinstance(g.target, ast.Name):
            probe = self.ctx.fresh_int("probe")
            try:
                r = elem(probe)
            except (Unsupported, PyExc):
                r = None
            if isinstance(r, SInt) and z3.is_true(z3.simplify(r.t == probe.t)):
                return sc.it
        return MapSeq.make(self, sc.it, elem, is_list=isinstance(n, ast.ListComp))

    # calls ------------------------------------------------------------------
    def e_Call(self, n, fr):
        fn = self.eval(n.func, fr)
        args = []
        for a in n.args:
            if isinstance(a, ast.Starred):
                sv = self.eval(a.value, fr)
                if fn is self.builtins.get("zip") and len(n.args) == 1 and getattr(type(sv), "_pyvc_symlen", False) and not sv.concrete_len():
                    from .zarridx import unzip

                    return unzip(self, sv)
                args.extend(self.iterate(sv))
            else:
                args.append(self.eval(a, fr))
        kwargs = {}
        for kw in n.keywords:
            if kw.arg is None:
                mv = self.eval(kw.value, fr)
                if isinstance(mv, dict):
                    for k, v in mv.items():
                        if k in kwargs:
                            raise PyExc(TypeError, (f"got multiple values for keyword argument {k!r}",))
                        kwargs[k] = v
                else:
                    raise Unsupported("** of a non-dict")
            else:
                kwargs[kw.arg] = self.eval(kw.value, fr)
        if fn is self.builtins.get("super") and not args:
            return self._super(fr)
        if fn is self.builtins.get("locals"):
            return dict(fr.locals)
        if self.ctx.meter is None:
            return self.call(fn, args, kwargs)
        # live-memory meter: the evaluated arguments are referenced by the caller until the call returns
        self.inflight.append((args, kwargs))
        try:
            return self.call(fn, args, kwargs)
        finally:
            self.inflight.pop()

    def _super(self, fr):
        f = fr
        while f is not None and f.func is None:
            f = f.parent
        if f is None:
            raise Unsupported("super() outside method")
        node = f.func.node
        selfname = node.args.args[0].arg
        obj = f.locals[selfname]
        # find the class owning this function
        for c in obj.cls.mro():
            if any(v is f.func or getattr(v, "fn", None) is f.func or getattr(v, "fget", None) is f.func for v in c.ns.values()):
                return _Super(self, obj, c)
        raise Unsupported("super(): owner class not found")


class _Super:
    def __init__(self, interp, obj, after):
        self.interp = interp
        self.obj = obj
        self.after = after

    def _pyvc_getattr(self, interp, name):
        mro = self.obj.cls.mro()
        for c in mro[mro.index(self.after) + 1:]:
            if name in c.ns:
                return interp._bind(c.ns[name], self.obj, self.obj.cls)
        if name == "__init__":
            return lambda *a, **k: None
        raise PyExc(AttributeError, (name,))


class _SymComp(Exception):
    def __init__(self, it, index):
        self.it = it
        self.index = index


class GenList:
    """An eagerly evaluated generator: remembers that the real value is a lazy iterator."""

    _pyvc_lazy = True

    def __init__(self, items):
        self.items = list(items)
        self.pos = 0

    def __iter__(self):
        return self

    def __next__(self):
        if self.pos >= len(self.items):
            raise StopIteration
        v = self.items[self.pos]
        self.pos += 1
        return v


class AsyncGenList(GenList):
    pass


def _unhashable_sym(x, depth=0):
    if sym.is_sym(x):
        return True
    if depth < 3 and isinstance(x, tuple):
        return any(_unhashable_sym(y, depth + 1) for y in x)
    from .symseq import SymSeq

    return isinstance(x, SymSeq)


def _dec_name(dec):
    if isinstance(dec, ast.Call):
        dec = dec.func
    return _dotted(dec) or ""


def _dotted(n):
    if isinstance(n, ast.Name):
        return n.id
    if isinstance(n, ast.Attribute):
        b = _dotted(n.value)
        return None if b is None else f"{b}.{n.attr}"
    return None


def _is_typing(obj):
    return getattr(type(obj), "__module__", "") in ("typing", "collections.abc", "types") or getattr(obj, "__module__", "") == "typing"
