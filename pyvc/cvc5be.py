"""cvc5 1.4 (Python API) as second back end: takes z3's `unknown`s (it decides most of the nonlinear
feasibility queries z3 gives up on). Input is the SMT-LIB text z3 prints for the same assertions."""
from __future__ import annotations

import time


def check_smt2(text: str, timeout_ms: int = 2000, want_model=False):
    """-> ('sat'|'unsat'|'unknown', seconds)"""
    t0 = time.time()
    try:
        import cvc5

        tm = cvc5.TermManager()
        slv = cvc5.Solver(tm)
        slv.setOption("tlimit-per", str(int(timeout_ms)))
        if want_model:
            slv.setOption("produce-models", "true")
            text = text + "\n(get-model)\n"
        slv.setLogic("ALL")
        parser = cvc5.InputParser(slv)
        parser.setStringInput(cvc5.InputLanguage.SMT_LIB_2_6, text, "q")
        sm = parser.getSymbolManager()
        res = "unknown"
        model = {}
        while True:
            cmd = parser.nextCommand()
            if cmd.isNull():
                break
            if want_model and res != "sat" and "get-model" in str(cmd):
                break
            out = cmd.invoke(slv, sm)
            o = str(out).strip()
            if o in ("sat", "unsat", "unknown"):
                res = o
            elif want_model and o.startswith("("):
                import re

                for m in re.finditer(r"\(define-fun\s+(\|[^|]*\||\S+)\s+\(\)\s+(Int|Bool)\s+(\(-\s*\d+\)|-?\d+|true|false)\)", o):
                    nm = m.group(1).strip("|")
                    v = m.group(3)
                    if m.group(2) == "Bool":
                        model[nm] = v == "true"
                    else:
                        model[nm] = -int(v.strip("()").replace("-", "").strip()) if v.startswith("(") else int(v)
        if want_model:
            return res, time.time() - t0, model
        return res, time.time() - t0
    except Exception as e:  # noqa: BLE001
        if want_model:
            return "unknown", time.time() - t0, {}
        return "unknown", time.time() - t0
