"""Native replay for the fusion contracts (C02): real cubed programs whose plans have the shapes the contracts
enumerate, computed with the optimiser under test and with optimisation off, compared element by element.

A verifier counterexample for plan shape S and optimiser O is replayed by running every program registered for S
(the contract's key/block functions are uninterpreted, so the programs are instances, not the model itself):
reproduced == the optimised computation raises or returns other values than the unoptimised one, or a requested
array is not materialised."""
import functools
import shutil
import tempfile

import numpy as np


def _programs(xp, cubed, spec):
    a = np.arange(12.0).reshape(3, 4)
    b = np.arange(12.0, 24.0).reshape(3, 4)

    def arr(v, chunks):
        return xp.asarray(v, chunks=chunks, spec=spec)

    P = {}
    P["chain2"] = [lambda: [xp.negative(xp.abs(arr(a, (2, 2))))]]
    P["chain3"] = [lambda: [xp.negative(xp.abs(xp.negative(arr(a, (2, 2)))))]]

    def mid():
        x = xp.negative(arr(a, (2, 2)))
        y = xp.abs(x)
        return [xp.negative(y), y]

    P["chain3-mid-requested"] = [mid]
    P["binary"] = [lambda: [xp.add(xp.negative(arr(a, (2, 2))), xp.abs(arr(b, (2, 2))))]]

    def rep():
        x = xp.negative(arr(a, (2, 2)))
        return [xp.multiply(x, x)]

    P["repeated-arg"] = [rep]

    def diamond():
        x = xp.negative(arr(a, (2, 2)))
        return [xp.add(xp.abs(x), xp.square(x))]

    P["diamond"] = [diamond]

    def mixed():
        x = arr(a, (2, 2))
        return [xp.add(x, xp.negative(x))]

    P["mixed-levels"] = [mixed]
    red = [
        lambda: [xp.sum(xp.negative(arr(a, (1, 4))), axis=1)],  # one block along the reduced axis
        lambda: [xp.sum(xp.negative(arr(a, (1, 2))), axis=1)],
        lambda: [xp.sum(xp.negative(arr(a, (2, 2))))],
        lambda: [xp.mean(xp.negative(arr(a, (3, 1))), axis=0)],
        lambda: [xp.max(xp.abs(arr(a, (3, 4))), axis=0)],
    ]
    P["reduce-list"] = P["reduce-iter"] = red
    P["reduce-of-reduce"] = [lambda: [xp.sum(xp.sum(xp.negative(arr(a, (1, 2))), axis=1))],
                             lambda: [xp.negative(xp.sum(xp.negative(arr(a, (1, 4))), axis=1))]]
    P["list-and-one"] = [lambda: [xp.add(xp.sum(xp.negative(arr(a, (1, 4))), axis=1), xp.negative(arr(np.arange(3.0), (1,))))]]

    def shared():
        x = xp.negative(arr(a, (2, 2)))
        return [xp.abs(x), xp.square(x)]

    P["shared-two-requested"] = [shared]
    P["rechunk-mid"] = [lambda: [xp.negative(xp.negative(arr(a, (2, 2))).rechunk((3, 1)))]]
    P["fan-in3"] = [lambda: [xp.add(xp.add(xp.add(arr(a, (2, 2)), arr(b, (2, 2))), xp.multiply(arr(a, (2, 2)), arr(b, (2, 2)))), xp.negative(arr(a, (2, 2))))]]
    P["tree"] = [lambda: [xp.add(xp.multiply(xp.negative(arr(a, (2, 2))), xp.abs(arr(b, (2, 2)))), xp.square(arr(a, (2, 2))))]]
    P["virtual-input"] = [lambda: [xp.add(xp.add(arr(a, (2, 2)), xp.ones((3, 4), chunks=(2, 2), spec=spec)),
                                          xp.multiply(arr(b, (2, 2)), xp.ones((3, 4), chunks=(2, 2), spec=spec)))]]
    return P


def run_opt_case(shape, optimizer, opt_kwargs=None):
    import cubed
    import cubed.array_api as xp
    from cubed.core import optimization as O

    tmp = tempfile.mkdtemp(prefix="pyvc-replay-")
    try:
        spec = cubed.Spec(work_dir=tmp, allowed_mem="200MB")
        progs = _programs(xp, cubed, spec).get(shape)
        if not progs:
            return False, f"no native program registered for plan shape {shape!r}"
        fn = getattr(O, optimizer)
        if opt_kwargs:
            fn = functools.partial(fn, **opt_kwargs)
        tried = 0
        for i, build in enumerate(progs):
            want = [np.asarray(v) for v in cubed.compute(*build(), optimize_graph=False)]
            tried += 1
            try:
                kw = {}
                if optimizer == "fuse_all_optimize_dag":
                    pass
                got = cubed.compute(*build(), optimize_function=fn)
            except Exception as e:  # noqa: BLE001
                return True, f"program {i} of shape {shape}: optimised computation raised {type(e).__name__}: {str(e)[:300]} (unoptimised: fine)"
            for g, w in zip(got, want):
                g = np.asarray(g)
                if g.shape != w.shape or not np.array_equal(g, w, equal_nan=True):
                    return True, f"program {i} of shape {shape}: optimised result {g.tolist()} != unoptimised {w.tolist()}"
        return False, f"{tried} native programs of shape {shape}: optimised == unoptimised"
    finally:
        shutil.rmtree(tmp, ignore_errors=True)


# ---------------------------------------------------------------------------------------------------------------------
# native instance of the fusion lemma (fuse_blockwise_specs / fuse): concrete key functions, tagging block functions


def _reify(v):
    if isinstance(v, tuple) and v and v[0] in ("Read", "App"):
        return v
    if isinstance(v, list):
        return ("list", [_reify(x) for x in v])
    if hasattr(v, "__next__"):
        return ("iter", [_reify(x) for x in v])
    if isinstance(v, tuple):
        return ("tuple", [_reify(x) for x in v])
    return ("const", repr(v))


def run_fuse_case(opargs, preds, gen=False, legacy=False, out_coords=(3,)):
    """two instances: the blocks of a list/stream argument distinct, and coinciding (a key function may name the same
    block twice)"""
    last = (False, "")
    for dup in (False, True):
        last = _run_fuse_case(opargs, preds, gen, legacy, out_coords, dup)
        if last[0]:
            return last
    return last


def _run_fuse_case(opargs, preds, gen, legacy, out_coords, dup):
    """opargs: [(source, kind, n)], preds: {source: [(source, kind, n)]} as in contracts/c02_fusion.py CASES.
    Runs the real fuse_blockwise_specs (or fuse) + get_results_in_different_scope on concrete coordinates with block
    functions that build the application term of what they receive; compares with the unfused composition."""
    import cubed.primitive.blockwise as B
    from cubed.primitive.blockwise import BlockwiseSpec, ChunkKey, FunctionArgs

    def A(s):
        return f"array-{s}"

    def coords_of(label, src, j, c):
        # the same source read at two argument positions gets the same block (as in f(b, b))
        return tuple(x * 2 + (0 if dup else j) + (sum(map(ord, label + src)) % 5) for x in c)

    def make_keyfn(label, out_name, argspecs):
        def keys(c):
            out = []
            for i, (src, kind, n) in enumerate(argspecs):
                out.append((kind, [(A(src), coords_of(label, src, j, c)) for j in range(n)]))
            return out

        def keyfn(out_key):
            args = []
            for kind, ks in keys(tuple(out_key.coords)):
                objs = [ChunkKey(nm, cs) for nm, cs in ks]
                args.append(objs[0] if kind == "one" else (objs if kind == "list" else iter(objs)))
            return FunctionArgs(*args, output_name=out_name)

        keyfn.keys = keys
        return keyfn

    def make_fn(label, n_out=1):
        if n_out == 1:
            def fn(*args):
                return ("App", label, [_reify(a) for a in args])
            return fn

        def gfn(*args):
            a = [_reify(x) for x in args]
            for i in range(n_out):
                yield ("App", f"{label}#{i}", a)
        return gfn

    outs = [A("o0"), A("o1")] if gen else [A("o")]
    okf = make_keyfn("o", outs[0], opargs)
    ofn = make_fn("F_o", len(outs))
    proxy = object()
    ospec = BlockwiseSpec(okf, ofn, tuple(n for _, _, n in opargs), tuple(1 for _ in outs), {A(s): proxy for s, _, _ in opargs}, {o: proxy for o in outs})
    pinfo, pspecs = {}, []
    for (s, _k, _n) in opargs:
        if s in preds:
            if A(s) not in pinfo:
                kf = make_keyfn(s, A(s), preds[s])
                fn = make_fn(f"F_{s}")
                pinfo[A(s)] = (kf, f"F_{s}", BlockwiseSpec(kf, fn, tuple(n for _, _, n in preds[s]), (1,), {A(x): proxy for x, _, _ in preds[s]}, {A(s): proxy}))
            pspecs.append(pinfo[A(s)][2])
        else:
            pspecs.append(BlockwiseSpec(lambda x: FunctionArgs(x, output_name=x.name), lambda x: x, (1,), (1,), {}, {}))
    if legacy:
        class _P:  # just enough of a PrimitiveOperation / pipeline for fuse()
            pass
        raise NotImplementedError
    fused = B.fuse_blockwise_specs(ospec, *pspecs)
    orig_get_chunk = B.get_chunk
    B.get_chunk = lambda in_key, config: ("Read", in_key.name, tuple(in_key.coords))
    try:
        try:
            res = B.get_results_in_different_scope(list(out_coords), config=fused)
            got = list(res) if gen else [res]
        except Exception as e:  # noqa: BLE001
            return True, f"the fused task raised {type(e).__name__}: {str(e)[:200]}"
    finally:
        B.get_chunk = orig_get_chunk

    def ref(kind_keys):
        kind, ks = kind_keys

        def one(nm, cs):
            if nm not in pinfo:
                return ("Read", nm, cs)
            kf, fl, _ = pinfo[nm]
            inner = []
            for k2, ks2 in kf.keys(cs):
                vals = [("Read", n2, c2) for n2, c2 in ks2]
                inner.append(vals[0] if k2 == "one" else (k2, vals))
            return ("App", fl, inner)

        vals = [one(nm, cs) for nm, cs in ks]
        return vals[0] if kind == "one" else (kind, vals)

    args = [ref(kk) for kk in okf.keys(tuple(out_coords))]
    want = [("App", f"F_o#{i}", args) for i in range(2)] if gen else [("App", "F_o", args)]
    if got != want:
        return True, f"fused task computes {got!r:.400} but the unfused stages compute {want!r:.400}"
    return False, "fused task == composition of the unfused stages"
