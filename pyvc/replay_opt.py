"""Native replay for the fusion contracts (C02): real cubed programs whose plans have the shapes the contracts
enumerate, computed with the optimiser under test and with optimisation off, compared element by element.

A verifier counterexample for plan shape S and optimiser O is replayed by running every program registered for S
(the contract's key/block functions are uninterpreted, so the programs are instances, not the model itself):
reproduced == the optimised computation raises or returns other values than the unoptimised one, or a requested
array is not materialised."""
import functools
import shutil
import tempfile

import numpy as np


def _programs(xp, cubed, spec):
    a = np.arange(12.0).reshape(3, 4)
    b = np.arange(12.0, 24.0).reshape(3, 4)

    def arr(v, chunks):
        return xp.asarray(v, chunks=chunks, spec=spec)

    P = {}
    P["chain2"] = [lambda: [xp.negative(xp.abs(arr(a, (2, 2))))]]
    P["chain3"] = [lambda: [xp.negative(xp.abs(xp.negative(arr(a, (2, 2)))))]]

    def mid():
        x = xp.negative(arr(a, (2, 2)))
        y = xp.abs(x)
        return [xp.negative(y), y]

    P["chain3-mid-requested"] = [mid]
    P["binary"] = [lambda: [xp.add(xp.negative(arr(a, (2, 2))), xp.abs(arr(b, (2, 2))))]]

    def rep():
        x = xp.negative(arr(a, (2, 2)))
        return [xp.multiply(x, x)]

    P["repeated-arg"] = [rep]

    def diamond():
        x = xp.negative(arr(a, (2, 2)))
        return [xp.add(xp.abs(x), xp.square(x))]

    P["diamond"] = [diamond]

    def mixed():
        x = arr(a, (2, 2))
        return [xp.add(x, xp.negative(x))]

    P["mixed-levels"] = [mixed]
    red = [
        lambda: [xp.sum(xp.negative(arr(a, (1, 4))), axis=1)],  # one block along the reduced axis
        lambda: [xp.sum(xp.negative(arr(a, (1, 2))), axis=1)],
        lambda: [xp.sum(xp.negative(arr(a, (2, 2))))],
        lambda: [xp.mean(xp.negative(arr(a, (3, 1))), axis=0)],
        lambda: [xp.max(xp.abs(arr(a, (3, 4))), axis=0)],
    ]
    P["reduce-list"] = P["reduce-iter"] = red
    P["reduce-of-reduce"] = [lambda: [xp.sum(xp.sum(xp.negative(arr(a, (1, 2))), axis=1))],
                             lambda: [xp.negative(xp.sum(xp.negative(arr(a, (1, 4))), axis=1))]]
    P["list-and-one"] = [lambda: [xp.add(xp.sum(xp.negative(arr(a, (1, 4))), axis=1), xp.negative(arr(np.arange(3.0), (1,))))]]

    def shared():
        x = xp.negative(arr(a, (2, 2)))
        return [xp.abs(x), xp.square(x)]

    P["shared-two-requested"] = [shared]
    P["rechunk-mid"] = [lambda: [xp.negative(xp.negative(arr(a, (2, 2))).rechunk((3, 1)))]]
    P["fan-in3"] = [lambda: [xp.add(xp.add(xp.add(arr(a, (2, 2)), arr(b, (2, 2))), xp.multiply(arr(a, (2, 2)), arr(b, (2, 2)))), xp.negative(arr(a, (2, 2))))]]
    P["tree"] = [lambda: [xp.add(xp.multiply(xp.negative(arr(a, (2, 2))), xp.abs(arr(b, (2, 2)))), xp.square(arr(a, (2, 2))))]]
    P["virtual-input"] = [lambda: [xp.add(xp.add(arr(a, (2, 2)), xp.ones((3, 4), chunks=(2, 2), spec=spec)),
                                          xp.multiply(arr(b, (2, 2)), xp.ones((3, 4), chunks=(2, 2), spec=spec)))]]
    return P


def run_opt_case(shape, optimizer, opt_kwargs=None):
    import cubed
    import cubed.array_api as xp
    from cubed.core import optimization as O

    tmp = tempfile.mkdtemp(prefix="pyvc-replay-")
    try:
        spec = cubed.Spec(work_dir=tmp, allowed_mem="200MB")
        progs = _programs(xp, cubed, spec).get(shape)
        if not progs:
            return False, f"no native program registered for plan shape {shape!r}"
        fn = getattr(O, optimizer)
        if opt_kwargs:
            fn = functools.partial(fn, **opt_kwargs)
        tried = 0
        for i, build in enumerate(progs):
            want = [np.asarray(v) for v in cubed.compute(*build(), optimize_graph=False)]
            tried += 1
            try:
                kw = {}
                if optimizer == "fuse_all_optimize_dag":
                    pass
                got = cubed.compute(*build(), optimize_function=fn)
            except Exception as e:  # noqa: BLE001
                return True, f"program {i} of shape {shape}: optimised computation raised {type(e).__name__}: {str(e)[:300]} (unoptimised: fine)"
            for g, w in zip(got, want):
                g = np.asarray(g)
                if g.shape != w.shape or not np.array_equal(g, w, equal_nan=True):
                    return True, f"program {i} of shape {shape}: optimised result {g.tolist()} != unoptimised {w.tolist()}"
        return False, f"{tried} native programs of shape {shape}: optimised == unoptimised"
    finally:
        shutil.rmtree(tmp, ignore_errors=True)
