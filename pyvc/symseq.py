"""Sequences whose *length* is symbolic (chunk grids, `(v,)*k`, ranges, mapped sequences).

A symbolic sequence offers `length()` and `get(interp, k)` for a (symbolic) in-range index k;
collections of symbolic size are never unrolled: properties about them are discharged at a
*generic element* (a fresh index constrained to the range, scoped to the obligations about it).
"""
from __future__ import annotations

import ast
import operator

import z3

from . import sym
from .sym import PyExc, SBool, SInt, Unsupported, tb, tz, wrap


def _And(*xs):
    return z3.And(*[tb(x) for x in xs]) if xs else z3.BoolVal(True)


class SymSeq:
    _pyvc_symlen = True
    _pyvc_symbolic = True
    is_list = False
    lazy = False

    def length(self):
        raise NotImplementedError

    def get(self, interp, k):
        raise NotImplementedError

    def concrete_len(self):
        return isinstance(self.length(), int)

    # protocol used by the interpreter -------------------------------------
    def _pyvc_len(self, interp):
        return self.length()

    def _pyvc_truth(self, interp):
        n = self.length()
        return interp.truth(n != 0)

    SMALL_CAP = 6

    def _pyvc_iter(self, interp):
        n = self.length()
        if not isinstance(n, int):
            # small-length concretisation: fork over len == 0..cap when the path condition bounds the length
            c = interp.ctx
            if c.entails(tz(n) <= self.SMALL_CAP):
                for i in range(self.SMALL_CAP + 1):
                    if i == self.SMALL_CAP or c.branch(tz(n) == i):
                        n = i
                        break
            else:
                raise Unsupported(f"iteration over symbolic-length {type(self).__name__}")
        return iter([self.get(interp, i) for i in range(n)])

    def __iter__(self):
        return self._pyvc_iter(sym.cur().interp)

    def _pyvc_getitem(self, interp, idx):
        n = self.length()
        if isinstance(idx, slice):
            return self.slice(interp, idx)
        if isinstance(idx, SBool):
            idx = wrap(tz(idx))
        if not isinstance(idx, (int, SInt)):
            raise PyExc(TypeError, ("sequence indices must be integers",))
        c = interp.ctx
        if c.branch(tb((idx < -n) | (idx >= n))):
            raise PyExc(IndexError, ("index out of range",))
        if not isinstance(idx, int) or idx < 0:
            if c.branch(tb(idx < 0)):
                idx = idx + n
        return self.get(interp, idx)

    def slice(self, interp, sl):
        if sl.step is not None and sl.step != 1:
            if sl.step == -1 and sl.start is None and sl.stop is None:
                return ReverseSeq(self)
            raise Unsupported("slice with step on a symbolic sequence")
        n = self.length()
        a = 0 if sl.start is None else sl.start
        b = n if sl.stop is None else sl.stop
        c = interp.ctx
        if not isinstance(a, int) or a < 0:
            if c.branch(tb(a < 0)):
                a = a + n
                if c.branch(tb(a < 0)):
                    a = 0
        if not isinstance(b, int) or b < 0:
            if c.branch(tb(b < 0)):
                b = b + n
                if c.branch(tb(b < 0)):
                    b = 0
        if c.branch(tb(a > n)):
            a = n
        if c.branch(tb(b > n)):
            b = n
        if c.branch(tb(b < a)):
            b = a
        return SliceSeq(self, a, b)

    def _pyvc_contains(self, interp, item):
        raise Unsupported("membership in a symbolic-length sequence")

    @staticmethod
    def _pyvc_binop(interp, op, a, b):
        if op is operator.add and isinstance(a, (SymSeq, tuple, list)) and isinstance(b, (SymSeq, tuple, list)):
            if isinstance(a, Grid) or isinstance(b, Grid):
                ga, gb_ = _as_gridpart(a), _as_gridpart(b)
                if ga is not None and gb_ is not None:
                    if ga.concrete_len() and ga.length() == 0:
                        return b
                    if gb_.concrete_len() and gb_.length() == 0:
                        return a
                    parts = (ga.parts if isinstance(ga, ConcatGrid) else [ga]) + (gb_.parts if isinstance(gb_, ConcatGrid) else [gb_])
                    return ConcatGrid(parts)
            return ConcatSeq(_as_seq(a), _as_seq(b))
        if op is operator.mul:
            seq, k = (a, b) if isinstance(a, SymSeq) else (b, a)
            if isinstance(k, int) and k == 1:
                return seq
        return NotImplemented

    @staticmethod
    def _pyvc_compare(interp, t, a, b):
        if t in (ast.Eq, ast.NotEq):
            r = seq_eq(interp, a, b)
            if t is ast.NotEq:
                return ~r if isinstance(r, SBool) else (not r)
            return r
        raise Unsupported("ordering comparison of symbolic sequences")

    def __eq__(self, other):
        return seq_eq(sym.cur().interp, self, other)

    def __ne__(self, other):
        r = self.__eq__(other)
        return ~r if isinstance(r, SBool) else (not r)

    def __hash__(self):
        return id(self)

    # aggregate views used by contracts --------------------------------------
    def total(self, interp):
        raise Unsupported(f"sum() of {type(self).__name__}")

    def maxv(self, interp):
        raise Unsupported(f"max() of {type(self).__name__}")

    def prefix(self, interp, k):
        raise Unsupported(f"prefix sums of {type(self).__name__}")


def _as_gridpart(v):
    if isinstance(v, Grid):
        return v
    if isinstance(v, (tuple, list)) and all(sym._numlike(x) for x in v):
        return _TupleGrid(tuple(v))
    return None


def _as_seq(v):
    if isinstance(v, SymSeq):
        return v
    return ConstSeq(tuple(v), is_list=isinstance(v, list))


def seq_eq(interp, a, b):
    """Equality of sequences as a (symbolic) truth value; type mismatch (tuple vs list) is False."""
    if a is b:
        return True
    if not isinstance(a, (SymSeq, tuple, list)) or not isinstance(b, (SymSeq, tuple, list)):
        return False
    la = a.length() if isinstance(a, SymSeq) else len(a)
    lb = b.length() if isinstance(b, SymSeq) else len(b)
    if isinstance(a, Grid) and isinstance(b, Grid):
        return a.grid_eq(b)
    if isinstance(la, int) and isinstance(lb, int):
        if la != lb:
            return False
        xs = [a.get(interp, i) if isinstance(a, SymSeq) else a[i] for i in range(la)]
        ys = [b.get(interp, i) if isinstance(b, SymSeq) else b[i] for i in range(lb)]
        acc = True
        for x, y in zip(xs, ys):
            e = interp.compare(ast.Eq(), x, y)
            if e is False:
                return False
            if e is True:
                continue
            acc = e if acc is True else (acc & e)
        return acc
    # one side concrete, other symbolic-length: lengths must agree, then elementwise
    conc, other = (a, b) if isinstance(la, int) else (b, a) if isinstance(lb, int) else (None, None)
    if conc is None:
        raise Unsupported(f"equality of {type(a).__name__} and {type(b).__name__}")
    n = la if isinstance(la, int) else lb
    ol = other.length()
    acc = wrap(tz(ol) == n)
    if acc is False:
        return False
    # elementwise under the hypothesis that lengths agree (guarded so no out-of-range get is used)
    terms = [tb(acc)]
    for i in range(n):
        x = conc.get(interp, i) if isinstance(conc, SymSeq) else conc[i]
        y = other.get(interp, i)
        if not (sym._numlike(x) and sym._numlike(y)):
            raise Unsupported("equality of symbolic sequences with non-numeric elements")
        terms.append(tz(x) == tz(y))
    return wrap(z3.And(*terms))


class ConstSeq(SymSeq):
    def __init__(self, items, is_list=False):
        self.items = tuple(items)
        self.is_list = is_list

    def length(self):
        return len(self.items)

    def get(self, interp, k):
        if isinstance(k, int):
            return self.items[k]
        return interp.pick(self.items, k)

    def total(self, interp):
        return sum(self.items)


class ConcatSeq(SymSeq):
    def __init__(self, a, b):
        self.a, self.b = a, b
        self.is_list = a.is_list

    def length(self):
        return self.a.length() + self.b.length()

    def get(self, interp, k):
        la = self.a.length()
        if interp.truth(k < la):
            return self.a.get(interp, k)
        return self.b.get(interp, k - la)

    def total(self, interp):
        return self.a.total(interp) + self.b.total(interp)


class SliceSeq(SymSeq):
    def __init__(self, src, a, b):
        self.src, self.a, self.b = src, a, b
        self.is_list = src.is_list

    def length(self):
        return self.b - self.a

    def get(self, interp, k):
        return self.src.get(interp, self.a + k)


class ReverseSeq(SymSeq):
    def __init__(self, src):
        self.src = src
        self.is_list = src.is_list

    def length(self):
        return self.src.length()

    def get(self, interp, k):
        return self.src.get(interp, self.src.length() - 1 - k)


class MapSeq(SymSeq):
    """[f(x) for x in src] — element function applied lazily at the requested index."""

    def __init__(self, src, f, is_list=False, lazy=False):
        self.src, self.f = src, f
        self.is_list = is_list
        self.lazy = lazy

    @classmethod
    def make(cls, interp, src, f, is_list=False, lazy=False):
        # evaluate the element function once at a generic index so that exceptions raised by the
        # body for *some* element are not lost (the scoped hypothesis 0 <= k < len is popped afterwards)
        n = src.length()
        c = interp.ctx
        if c.feasible(tb(n > 0)):
            c.push()
            try:
                k = c.fresh_int("gk", lo=0)
                c.assume(k < n)
                f(src.get(interp, k))
            finally:
                c.pop()
        return cls(src, f, is_list=is_list, lazy=lazy)

    def length(self):
        return self.src.length()

    def get(self, interp, k):
        return self.f(self.src.get(interp, k))


class SymRange(SymSeq):
    def __init__(self, lo, hi):
        self.lo, self.hi = lo, hi

    def length(self):
        d = self.hi - self.lo
        if isinstance(d, int):
            return max(d, 0)
        return wrap(z3.If(tz(d) > 0, tz(d), 0))

    def get(self, interp, k):
        return self.lo + k

    def _pyvc_contains(self, interp, item):
        return (item >= self.lo) & (item < self.hi)


class ProductSeq(SymSeq):
    """itertools.product(*seqs) where some factor has symbolic length. The element at (symbolic) position k is
    the tuple of the factors' elements at per-factor indexes decode_j(k) with 0 <= decode_j(k) < len_j; the
    row-major bijection itself is not modelled (the element *set* is exact, order and position are abstract),
    so only element-wise (for-all) reasoning is supported."""

    def __init__(self, seqs):
        self.seqs = list(seqs)
        self._cache = {}
        self.lazy = True

    def length(self):
        n = 1
        for s in self.seqs:
            n = n * s.length()
        return n

    def get(self, interp, k):
        key = tz(k).get_id() if not isinstance(k, int) else ("c", k)
        if key in self._cache and (isinstance(k, int) or self._cache[key][0].eq(tz(k))):
            return self._cache[key][1]
        ctx = interp.ctx
        out = []
        lens = [s.length() for s in self.seqs]
        nonunit = [i for i, ln in enumerate(lens) if not (isinstance(ln, int) and ln == 1)]
        for i, (s, ln) in enumerate(zip(self.seqs, lens)):
            if isinstance(ln, int) and ln == 1:
                out.append(s.get(interp, 0))
                continue
            if len(nonunit) == 1:
                out.append(s.get(interp, k))  # a single factor with more than one element: position k is its k-th element
                continue
            idx = ctx.fresh_int("pidx", lo=0)
            ctx.assume(idx < ln)
            out.append(s.get(interp, idx))
        v = tuple(out)
        self._cache[key] = (None if isinstance(k, int) else tz(k), v)
        return v


class ZipSeq(SymSeq):
    def __init__(self, seqs, n):
        self.seqs, self.n = seqs, n

    def length(self):
        return self.n

    def get(self, interp, k):
        return tuple(s.get(interp, k) for s in self.seqs)


class EnumSeq(SymSeq):
    def __init__(self, src, start=0):
        self.src, self.start = src, start

    def length(self):
        return self.src.length()

    def get(self, interp, k):
        return (k + self.start, self.src.get(interp, k))


# ---------------------------------------------------------------------------
# chunk grids: sequences of non-negative block sizes along one axis


class Grid(SymSeq):
    """A block-size sequence with closed forms for length, element, prefix sum, total, max."""

    def first(self, interp):
        return self.get(interp, 0)

    def grid_eq(self, other):
        raise Unsupported(f"grid equality {type(self).__name__} vs {type(other).__name__}")


def _ite(c, a, b):
    return wrap(z3.If(tb(c), tz(a), tz(b)))


def _nbkey(n, c):
    return (tz(n).get_id(), tz(c).get_id())


def _NB_CACHE_get(n, c):
    try:
        hit = sym.cur().ghost.setdefault("nbcache", {}).get(_nbkey(n, c))
    except Unsupported:
        return None
    if hit is None:
        return None
    n0, c0, nb = hit
    if tz(n0).eq(tz(n)) and tz(c0).eq(tz(c)):
        return nb
    return None


def _NB_CACHE_put(n, c, nb):
    try:
        # the terms are stored with the entry: they stay alive, so their ids cannot be reused by other terms
        sym.cur().ghost.setdefault("nbcache", {})[_nbkey(n, c)] = (n, c, nb)
    except Unsupported:
        pass


class ChunkSeq(Grid):
    """The regular grid normalize_chunks produces for extent n >= 0 and chunk size c >= 1:
    (c,)*(n//c) + ((n%c,) if n%c else ())   for n > 0,   (0,) for n == 0.

    The number of blocks is kept as an integer variable `nb` with its defining (division-free) constraints
        nb >= 1,  n == 0 -> nb == 1,  n > 0 -> (nb-1)*c < n <= nb*c
    (a conservative definitional extension: exactly one such nb exists for every n >= 0, c >= 1), which keeps the
    common obligations — block coordinates in range, region arithmetic — free of div/mod terms."""

    def __init__(self, n, c, nb=None, canonical=False):
        # canonical: 1 <= c <= max(n, 1)  (what normalize_chunks yields for an array's own chunking)
        self.n, self.c = n, c
        self.nb = nb
        self.canonical = canonical
        if nb is not None:
            _NB_CACHE_put(n, c, nb)

    def length(self):
        n, c = self.n, self.c
        if isinstance(n, int) and isinstance(c, int):
            return 1 if n == 0 else -(-n // c)
        if isinstance(n, int) and n <= 1:
            return 1  # an extent of 0 or 1 is a single block whatever the (positive) chunk size
        if self.nb is None:
            cached = _NB_CACHE_get(n, c)
            if cached is not None:
                self.nb = cached
            elif isinstance(c, int) and c == 1:
                self.nb = _ite(tz(n) == 0, 1, n)
            elif sym.cur().quick_entails(tz(n) <= 1):
                return 1  # on this path the extent is 0 or 1: a single block
            else:
                ctx = sym.cur()
                nb = ctx.fresh_int("nb")
                nz, cz, bz = tz(n), tz(c), nb.t
                # definitional (exactly one such nb exists whenever n >= 0 and c >= 1): kept across scopes
                ctx.assume_def(z3.Implies(z3.And(nz >= 0, cz >= 1), z3.And(
                    bz >= 1, z3.Implies(nz == 0, bz == 1),
                    z3.Implies(nz > 0, z3.And((bz - 1) * cz < nz, nz <= bz * cz)))))
                self.nb = nb
                _NB_CACHE_put(n, c, nb)
                # (nb-1) == (n-1) div c  for n >= 1
                ctx.register_quotient(nb - 1, n - 1, c)
        return self.nb

    def get(self, interp, k):
        # case split by forking (keeps every path's terms free of if-then-else)
        n, c = self.n, self.c
        if interp.truth(n == 0):
            return 0
        if self.canonical and isinstance(k, int) and k == 0:
            return c
        ln = self.length()
        if interp.truth(k < ln - 1):
            return c
        return n - (ln - 1) * c

    def rep_indices(self, interp):
        """indices whose elements represent every element (a regular grid has at most two distinct block sizes)"""
        return [0, self.length() - 1]

    def prefix(self, interp, k):
        """sum of the first k block sizes, 0 <= k <= len."""
        n, c = self.n, self.c
        ln = self.length()
        ctx = interp.ctx
        if ctx.entails(tz(k) < tz(ln)):
            return k * c
        if interp.truth(k >= ln):
            return n
        return k * c

    def total(self, interp):
        return self.n

    def maxv(self, interp):
        n, c = self.n, self.c
        if interp.truth(n == 0):
            return 0
        if self.canonical or interp.truth(c < n):
            return c
        return n

    def clip(self):
        n, c = self.n, self.c
        if self.canonical:
            return tz(c)
        return z3.If(tz(c) < tz(n), tz(c), tz(n))

    def grid_eq(self, other):
        if isinstance(other, ChunkSeq):
            return wrap(z3.And(tz(self.n) == tz(other.n), z3.Or(tz(self.n) == 0, self.clip() == other.clip())))
        if isinstance(other, RepGrid):
            return other.grid_eq(self)
        raise Unsupported("grid equality")


class RepGrid(Grid):
    """(v,) * k  with symbolic k >= 0 and block size v >= 0."""

    def __init__(self, v, k):
        self.v, self.k = v, k

    def length(self):
        return self.k

    def get(self, interp, k):
        return self.v

    def prefix(self, interp, k):
        return k * self.v

    def total(self, interp):
        return self.v * self.k

    def maxv(self, interp):
        if interp.truth(self.k == 0):
            raise PyExc(ValueError, ("max() arg is an empty sequence",))
        return self.v

    def grid_eq(self, other):
        if isinstance(other, RepGrid):
            return wrap(z3.And(tz(self.k) == tz(other.k), z3.Or(tz(self.k) == 0, tz(self.v) == tz(other.v))))
        if isinstance(other, ChunkSeq):
            ln = other.length()
            # (v,)*k == regular(n,c)  <=>  same length and every element equal
            n, c = other.n, other.c
            allc = z3.And(tz(n) == tz(self.v) * tz(self.k), z3.Or(tz(self.k) == 1, tz(self.v) == tz(c)))
            zero = z3.And(tz(n) == 0, tz(self.k) == 1, tz(self.v) == 0)
            return wrap(z3.And(tz(self.k) == tz(ln), z3.Or(zero, z3.And(tz(n) > 0, allc, tz(self.v) > 0))))
        raise Unsupported("grid equality")


class _TupleGrid(Grid):
    """A concrete-length tuple of (possibly symbolic) block sizes."""

    def __init__(self, items):
        self.items = tuple(items)

    def length(self):
        return len(self.items)

    def concrete_len(self):
        return True

    def get(self, interp, k):
        if isinstance(k, int):
            return self.items[k]
        return interp.pick(self.items, k)

    def prefix(self, interp, k):
        acc = [0]
        for x in self.items:
            acc.append(acc[-1] + x)
        if isinstance(k, int):
            return acc[k]
        return interp.pick(tuple(acc), k)

    def total(self, interp):
        t = 0
        for x in self.items:
            t = t + x
        return t

    def maxv(self, interp):
        if not self.items:
            raise PyExc(ValueError, ("max() arg is an empty sequence",))
        m = self.items[0]
        for x in self.items[1:]:
            m = x if interp.truth(x > m) else m
        return m


class ConcatGrid(Grid):
    """Concatenation of block-size sequences, e.g. (s,)*(nb//s) + ((nb%s,) if nb%s else ())."""

    def __init__(self, parts):
        self.parts = list(parts)

    def length(self):
        n = 0
        for p in self.parts:
            n = n + p.length()
        return n

    def get(self, interp, k):
        off = 0
        for i, p in enumerate(self.parts):
            ln = p.length()
            if i == len(self.parts) - 1 or interp.truth(k < off + ln):
                return p.get(interp, k - off)
            off = off + ln

    def prefix(self, interp, k):
        off, acc = 0, 0
        for i, p in enumerate(self.parts):
            ln = p.length()
            if i == len(self.parts) - 1 or interp.truth(k <= off + ln):
                return acc + p.prefix(interp, k - off)
            off = off + ln
            acc = acc + p.total(interp)

    def total(self, interp):
        t = 0
        for p in self.parts:
            t = t + p.total(interp)
        return t

    def maxv(self, interp):
        m = None
        for p in self.parts:
            if interp.truth(p.length() == 0):
                continue
            v = p.maxv(interp)
            m = v if m is None else (v if interp.truth(v > m) else m)
        if m is None:
            raise PyExc(ValueError, ("max() arg is an empty sequence",))
        return m


class RepSeq:
    """`seq * k` for symbolic k (factory)."""

    @staticmethod
    def make(interp, seq, k):
        if len(seq) != 1:
            raise Unsupported("repetition of a multi-element sequence by a symbolic count")
        c = interp.ctx
        if c.branch(tb(k <= 0)):
            return type(seq)()
        v = seq[0]
        if sym._numlike(v):
            g = RepGrid(v, k)
        else:
            g = MapSeq(SymRange(0, k), lambda _i, v=v: v)
        g.is_list = isinstance(seq, list)
        return g


class PrefixSeq(SymSeq):
    """tuple(accumulate(grid, add, initial=0)): element k is the sum of the first k block sizes."""

    def __init__(self, grid):
        self.grid = grid

    def length(self):
        return self.grid.length() + 1

    def get(self, interp, k):
        return self.grid.prefix(interp, k)


class OffsetPrefixSeq(PrefixSeq):
    """tuple(accumulate(grid, add, initial=offset)): element k is offset + the sum of the first k block sizes."""

    def __init__(self, grid, offset):
        PrefixSeq.__init__(self, grid)
        self.offset = offset

    def get(self, interp, k):
        return self.offset + self.grid.prefix(interp, k)


class SymHashSet:
    """A python set whose elements may be symbolic: membership/dedup decided by forking on equality."""

    _pyvc_symbolic = True

    def __init__(self, interp, items=()):
        self.interp = interp
        self.items = []
        for x in items:
            self.add(x)

    def _eq(self, a, b):
        if a is b:
            return True
        if not sym.deep_sym(a) and not sym.deep_sym(b):
            try:
                return bool(a == b)
            except Exception:
                return False
        return self.interp.truth(self.interp.compare(ast.Eq(), a, b))

    def union(self, *others):
        out = SymHashSet(self.interp, self.items)
        for o in others:
            out.update(o)
        return out

    def intersection(self, *others):
        out = self
        for o in others:
            out = out & o
        return out

    def difference(self, *others):
        out = self
        for o in others:
            out = out - o
        return out

    def issubset(self, other):
        return all(any(self._eq(x, y) for y in other) for x in self.items)

    def __le__(self, other):
        return self.issubset(other)

    def __ge__(self, other):
        return all(y in self for y in other)

    def clear(self):
        self.items = []

    def __repr__(self):
        return "{" + ", ".join(repr(x) for x in self.items) + "}"

    def add(self, x):
        for y in self.items:
            if self._eq(x, y):
                return
        self.items.append(x)

    def update(self, xs):
        for x in xs:
            self.add(x)

    def discard(self, x):
        self.items = [y for y in self.items if not self._eq(x, y)]

    def remove(self, x):
        n = len(self.items)
        self.discard(x)
        if len(self.items) == n:
            raise PyExc(KeyError, ("<sym>",))

    def __iter__(self):
        return iter(list(self.items))

    def __len__(self):
        return len(self.items)

    def __contains__(self, x):
        return any(self._eq(x, y) for y in self.items)

    def _pyvc_contains(self, interp, x):
        return x in self

    def __bool__(self):
        return bool(self.items)

    def __sub__(self, other):
        out = SymHashSet(self.interp)
        out.items = [x for x in self.items if not any(self._eq(x, y) for y in other)]
        return out

    def __rsub__(self, other):
        out = SymHashSet(self.interp)
        out.items = [x for x in other if x not in self]
        return out

    def __or__(self, other):
        out = SymHashSet(self.interp, self.items)
        out.update(other)
        return out

    __ror__ = __or__

    def __and__(self, other):
        out = SymHashSet(self.interp)
        out.items = [x for x in self.items if any(self._eq(x, y) for y in other)]
        return out

    __rand__ = __and__

    def __eq__(self, other):
        if not isinstance(other, (set, frozenset, SymHashSet)):
            return False
        o = list(other)
        return len(o) == len(self.items) and all(x in self for x in o)

    def __ne__(self, other):
        return not self.__eq__(other)

    def __hash__(self):
        return id(self)

    def copy(self):
        return SymHashSet(self.interp, self.items)

    def pop(self):
        return self.items.pop()


class UFSeq(SymSeq):
    """A list of symbolic length whose elements are values of an uninterpreted function f(k); `lo` bounds each
    element (asserted at every instantiation).  sum_upto(j) is the spec function  S(0)=0, S(j+1)=S(j)+f(j),
    whose recurrence is instantiated where a loop invariant needs it."""

    is_list = True

    def __init__(self, name, length, lo=None):
        self.name = name
        self.m = length
        self.lo = lo
        self.f = z3.Function(f"{name}_elem", z3.IntSort(), z3.IntSort())
        self.S = z3.Function(f"{name}_sum_upto", z3.IntSort(), z3.IntSort())

    def length(self):
        return self.m

    def get(self, interp, k):
        v = wrap(self.f(tz(k)))
        if self.lo is not None:
            interp.ctx.assume(tz(v) >= tz(self.lo))
        return v

    def sum_upto(self, interp, j):
        ctx = interp.ctx
        jz = tz(j)
        ctx.assume(self.S(z3.IntVal(0)) == 0)
        if self.lo is not None and isinstance(self.lo, int) and self.lo >= 0:
            ctx.assume(z3.Implies(jz >= 0, self.S(jz) >= 0))
        return wrap(self.S(jz))

    def sum_step(self, interp, j):
        """instantiate S(j+1) == S(j) + f(j)"""
        jz = tz(j)
        interp.ctx.assume(self.S(jz + 1) == self.S(jz) + self.f(jz))

    def total(self, interp):
        return self.sum_upto(interp, self.m)
