"""Sequences whose *length* is symbolic (chunk grids, `(v,)*k`, ranges, mapped sequences).

A symbolic sequence offers `length()` and `get(interp, k)` for a (symbolic) in-range index k;
collections of symbolic size are never unrolled: properties about them are discharged at a
*generic element* (a fresh index constrained to the range, scoped to the obligations about it).
"""
from __future__ import annotations

import ast
import operator

import z3

from . import sym
from .sym import PyExc, SBool, SInt, Unsupported, tb, tz, wrap


def _And(*xs):
    return z3.And(*[tb(x) for x in xs]) if xs else z3.BoolVal(True)


class SymSeq:
    _pyvc_symlen = True
    _pyvc_symbolic = True
    is_list = False
    lazy = False

    def length(self):
        raise NotImplementedError

    def get(self, interp, k):
        raise NotImplementedError

    def concrete_len(self):
        return isinstance(self.length(), int)

    # protocol used by the interpreter -------------------------------------
    def _pyvc_len(self, interp):
        return self.length()

    def _pyvc_truth(self, interp):
        n = self.length()
        return interp.truth(n != 0)

    def _pyvc_iter(self, interp):
        n = self.length()
        if not isinstance(n, int):
            raise Unsupported(f"iteration over symbolic-length {type(self).__name__}")
        return iter([self.get(interp, i) for i in range(n)])

    def __iter__(self):
        return self._pyvc_iter(sym.cur().interp)

    def _pyvc_getitem(self, interp, idx):
        n = self.length()
        if isinstance(idx, slice):
            return self.slice(interp, idx)
        if isinstance(idx, SBool):
            idx = wrap(tz(idx))
        if not isinstance(idx, (int, SInt)):
            raise PyExc(TypeError, ("sequence indices must be integers",))
        c = interp.ctx
        if c.branch(tb((idx < -n) | (idx >= n))):
            raise PyExc(IndexError, ("index out of range",))
        if not isinstance(idx, int) or idx < 0:
            if c.branch(tb(idx < 0)):
                idx = idx + n
        return self.get(interp, idx)

    def slice(self, interp, sl):
        if sl.step is not None and sl.step != 1:
            if sl.step == -1 and sl.start is None and sl.stop is None:
                return ReverseSeq(self)
            raise Unsupported("slice with step on a symbolic sequence")
        n = self.length()
        a = 0 if sl.start is None else sl.start
        b = n if sl.stop is None else sl.stop
        c = interp.ctx
        if not isinstance(a, int) or a < 0:
            if c.branch(tb(a < 0)):
                a = a + n
                if c.branch(tb(a < 0)):
                    a = 0
        if not isinstance(b, int) or b < 0:
            if c.branch(tb(b < 0)):
                b = b + n
                if c.branch(tb(b < 0)):
                    b = 0
        if c.branch(tb(a > n)):
            a = n
        if c.branch(tb(b > n)):
            b = n
        if c.branch(tb(b < a)):
            b = a
        return SliceSeq(self, a, b)

    def _pyvc_contains(self, interp, item):
        raise Unsupported("membership in a symbolic-length sequence")

    @staticmethod
    def _pyvc_binop(interp, op, a, b):
        if op is operator.add and isinstance(a, (SymSeq, tuple, list)) and isinstance(b, (SymSeq, tuple, list)):
            return ConcatSeq(_as_seq(a), _as_seq(b))
        if op is operator.mul:
            seq, k = (a, b) if isinstance(a, SymSeq) else (b, a)
            if isinstance(k, int) and k == 1:
                return seq
        return NotImplemented

    @staticmethod
    def _pyvc_compare(interp, t, a, b):
        if t in (ast.Eq, ast.NotEq):
            r = seq_eq(interp, a, b)
            if t is ast.NotEq:
                return ~r if isinstance(r, SBool) else (not r)
            return r
        raise Unsupported("ordering comparison of symbolic sequences")

    def __eq__(self, other):
        return seq_eq(sym.cur().interp, self, other)

    def __ne__(self, other):
        r = self.__eq__(other)
        return ~r if isinstance(r, SBool) else (not r)

    def __hash__(self):
        return id(self)

    # aggregate views used by contracts --------------------------------------
    def total(self, interp):
        raise Unsupported(f"sum() of {type(self).__name__}")

    def maxv(self, interp):
        raise Unsupported(f"max() of {type(self).__name__}")

    def prefix(self, interp, k):
        raise Unsupported(f"prefix sums of {type(self).__name__}")


def _as_seq(v):
    if isinstance(v, SymSeq):
        return v
    return ConstSeq(tuple(v), is_list=isinstance(v, list))


def seq_eq(interp, a, b):
    """Equality of sequences as a (symbolic) truth value; type mismatch (tuple vs list) is False."""
    if a is b:
        return True
    if not isinstance(a, (SymSeq, tuple, list)) or not isinstance(b, (SymSeq, tuple, list)):
        return False
    la = a.length() if isinstance(a, SymSeq) else len(a)
    lb = b.length() if isinstance(b, SymSeq) else len(b)
    if isinstance(a, Grid) and isinstance(b, Grid):
        return a.grid_eq(b)
    if isinstance(la, int) and isinstance(lb, int):
        if la != lb:
            return False
        xs = [a.get(interp, i) if isinstance(a, SymSeq) else a[i] for i in range(la)]
        ys = [b.get(interp, i) if isinstance(b, SymSeq) else b[i] for i in range(lb)]
        acc = True
        for x, y in zip(xs, ys):
            e = interp.compare(ast.Eq(), x, y)
            if e is False:
                return False
            if e is True:
                continue
            acc = e if acc is True else (acc & e)
        return acc
    # one side concrete, other symbolic-length: lengths must agree, then elementwise
    conc, other = (a, b) if isinstance(la, int) else (b, a) if isinstance(lb, int) else (None, None)
    if conc is None:
        raise Unsupported(f"equality of {type(a).__name__} and {type(b).__name__}")
    n = la if isinstance(la, int) else lb
    ol = other.length()
    acc = wrap(tz(ol) == n)
    if acc is False:
        return False
    # elementwise under the hypothesis that lengths agree (guarded so no out-of-range get is used)
    terms = [tb(acc)]
    for i in range(n):
        x = conc.get(interp, i) if isinstance(conc, SymSeq) else conc[i]
        y = other.get(interp, i)
        if not (sym._numlike(x) and sym._numlike(y)):
            raise Unsupported("equality of symbolic sequences with non-numeric elements")
        terms.append(tz(x) == tz(y))
    return wrap(z3.And(*terms))


class ConstSeq(SymSeq):
    def __init__(self, items, is_list=False):
        self.items = tuple(items)
        self.is_list = is_list

    def length(self):
        return len(self.items)

    def get(self, interp, k):
        if isinstance(k, int):
            return self.items[k]
        return interp.pick(self.items, k)

    def total(self, interp):
        return sum(self.items)


class ConcatSeq(SymSeq):
    def __init__(self, a, b):
        self.a, self.b = a, b
        self.is_list = a.is_list

    def length(self):
        return self.a.length() + self.b.length()

    def get(self, interp, k):
        la = self.a.length()
        if interp.truth(k < la):
            return self.a.get(interp, k)
        return self.b.get(interp, k - la)

    def total(self, interp):
        return self.a.total(interp) + self.b.total(interp)


class SliceSeq(SymSeq):
    def __init__(self, src, a, b):
        self.src, self.a, self.b = src, a, b
        self.is_list = src.is_list

    def length(self):
        return self.b - self.a

    def get(self, interp, k):
        return self.src.get(interp, self.a + k)


class ReverseSeq(SymSeq):
    def __init__(self, src):
        self.src = src
        self.is_list = src.is_list

    def length(self):
        return self.src.length()

    def get(self, interp, k):
        return self.src.get(interp, self.src.length() - 1 - k)


class MapSeq(SymSeq):
    """[f(x) for x in src] — element function applied lazily at the requested index."""

    def __init__(self, src, f, is_list=False, lazy=False):
        self.src, self.f = src, f
        self.is_list = is_list
        self.lazy = lazy

    @classmethod
    def make(cls, interp, src, f, is_list=False, lazy=False):
        # evaluate the element function once at a generic index so that exceptions raised by the
        # body for *some* element are not lost (the scoped hypothesis 0 <= k < len is popped afterwards)
        n = src.length()
        c = interp.ctx
        if c.feasible(tb(n > 0)):
            c.push()
            try:
                k = c.fresh_int("gk", lo=0)
                c.assume(k < n)
                f(src.get(interp, k))
            finally:
                c.pop()
        return cls(src, f, is_list=is_list, lazy=lazy)

    def length(self):
        return self.src.length()

    def get(self, interp, k):
        return self.f(self.src.get(interp, k))


class SymRange(SymSeq):
    def __init__(self, lo, hi):
        self.lo, self.hi = lo, hi

    def length(self):
        d = self.hi - self.lo
        if isinstance(d, int):
            return max(d, 0)
        return wrap(z3.If(tz(d) > 0, tz(d), 0))

    def get(self, interp, k):
        return self.lo + k

    def _pyvc_contains(self, interp, item):
        return (item >= self.lo) & (item < self.hi)


class ZipSeq(SymSeq):
    def __init__(self, seqs, n):
        self.seqs, self.n = seqs, n

    def length(self):
        return self.n

    def get(self, interp, k):
        return tuple(s.get(interp, k) for s in self.seqs)


class EnumSeq(SymSeq):
    def __init__(self, src, start=0):
        self.src, self.start = src, start

    def length(self):
        return self.src.length()

    def get(self, interp, k):
        return (k + self.start, self.src.get(interp, k))


# ---------------------------------------------------------------------------
# chunk grids: sequences of non-negative block sizes along one axis


class Grid(SymSeq):
    """A block-size sequence with closed forms for length, element, prefix sum, total, max."""

    def first(self, interp):
        return self.get(interp, 0)

    def grid_eq(self, other):
        raise Unsupported(f"grid equality {type(self).__name__} vs {type(other).__name__}")


def _ite(c, a, b):
    return wrap(z3.If(tb(c), tz(a), tz(b)))


class ChunkSeq(Grid):
    """The regular grid normalize_chunks produces for extent n >= 0 and chunk size c >= 1:
    (c,)*(n//c) + ((n%c,) if n%c else ())   for n > 0,   (0,) for n == 0."""

    def __init__(self, n, c):
        self.n, self.c = n, c

    def length(self):
        n, c = self.n, self.c
        if isinstance(n, int) and isinstance(c, int):
            return 1 if n == 0 else -(-n // c)
        return _ite(tz(n) == 0, 1, (tz(n) + tz(c) - 1) / tz(c))

    def get(self, interp, k):
        n, c = self.n, self.c
        ln = self.length()
        return _ite(tz(n) == 0, 0, z3.If(tz(k) < tz(ln) - 1, tz(c), tz(n) - (tz(ln) - 1) * tz(c)))

    def prefix(self, interp, k):
        """sum of the first k block sizes, 0 <= k <= len."""
        n, c = self.n, self.c
        ln = self.length()
        return _ite(tz(k) >= tz(ln), tz(n), tz(k) * tz(c))

    def total(self, interp):
        return self.n

    def maxv(self, interp):
        n, c = self.n, self.c
        return _ite(tz(n) == 0, 0, z3.If(tz(c) < tz(n), tz(c), tz(n)))

    def clip(self):
        n, c = self.n, self.c
        return z3.If(tz(c) < tz(n), tz(c), tz(n))

    def grid_eq(self, other):
        if isinstance(other, ChunkSeq):
            return wrap(z3.And(tz(self.n) == tz(other.n), z3.Or(tz(self.n) == 0, self.clip() == other.clip())))
        if isinstance(other, RepGrid):
            return other.grid_eq(self)
        raise Unsupported("grid equality")


class RepGrid(Grid):
    """(v,) * k  with symbolic k >= 0 and block size v >= 0."""

    def __init__(self, v, k):
        self.v, self.k = v, k

    def length(self):
        return self.k

    def get(self, interp, k):
        return self.v

    def prefix(self, interp, k):
        return k * self.v

    def total(self, interp):
        return self.v * self.k

    def maxv(self, interp):
        if interp.truth(self.k == 0):
            raise PyExc(ValueError, ("max() arg is an empty sequence",))
        return self.v

    def grid_eq(self, other):
        if isinstance(other, RepGrid):
            return wrap(z3.And(tz(self.k) == tz(other.k), z3.Or(tz(self.k) == 0, tz(self.v) == tz(other.v))))
        if isinstance(other, ChunkSeq):
            ln = other.length()
            # (v,)*k == regular(n,c)  <=>  same length and every element equal
            n, c = other.n, other.c
            allc = z3.And(tz(n) == tz(self.v) * tz(self.k), z3.Or(tz(self.k) == 1, tz(self.v) == tz(c)))
            zero = z3.And(tz(n) == 0, tz(self.k) == 1, tz(self.v) == 0)
            return wrap(z3.And(tz(self.k) == tz(ln), z3.Or(zero, z3.And(tz(n) > 0, allc, tz(self.v) > 0))))
        raise Unsupported("grid equality")


class RepSeq:
    """`seq * k` for symbolic k (factory)."""

    @staticmethod
    def make(interp, seq, k):
        if len(seq) != 1:
            raise Unsupported("repetition of a multi-element sequence by a symbolic count")
        c = interp.ctx
        if c.branch(tb(k <= 0)):
            return type(seq)()
        v = seq[0]
        if sym._numlike(v):
            g = RepGrid(v, k)
        else:
            g = MapSeq(SymRange(0, k), lambda _i, v=v: v)
        g.is_list = isinstance(seq, list)
        return g


class PrefixSeq(SymSeq):
    """tuple(accumulate(grid, add, initial=0)): element k is the sum of the first k block sizes."""

    def __init__(self, grid):
        self.grid = grid

    def length(self):
        return self.grid.length() + 1

    def get(self, interp, k):
        return self.grid.prefix(interp, k)
