"""Effect clauses over the call graph of /repo (frame/effect analysis, no SMT).

Every function gets an *inferred* effect summary (the union of its direct effects and its callees' summaries,
computed bottom-up to a fixpoint: a caller is checked against its callees' summaries, not their bodies); the
summaries of the public functions are then *checked* against the declared clause of the contract.
Name resolution is static (import tables, nested defs, module-level defs, `self.` methods, unique method names);
dynamic dispatch through values is not followed (stated assumption).
"""
from __future__ import annotations

import ast
import os

from .source import REPO, module_path, parse_module

# method names that are never resolved to repo methods (ubiquitous container/str methods)
COMMON = set(dir(dict) + dir(list) + dir(set) + dir(str) + dir(tuple)) | {"format", "get", "items", "keys", "values"}

# direct effect roots -------------------------------------------------------------------------------------------
EXT_EFFECTS = {
    "shutil.rmtree": "remove-tree",
    "zarr.open": "storage-create", "zarr.open_array": "storage-create", "zarr.create_array": "storage-create",
    "zarr.open_group": "storage-create", "zarr.create": "storage-create", "zarr.create_group": "storage-create",
    "atexit.register": "register-atexit",
}
METHOD_EFFECTS = {
    "execute_dag": "execute",
    "set_basic_selection": "storage-write",
    "rmtree": "remove-tree",
}


class Fn:
    __slots__ = ("qual", "node", "module", "cls", "calls", "direct", "parent")

    def __init__(self, qual, node, module, cls, parent):
        self.qual, self.node, self.module, self.cls, self.parent = qual, node, module, cls, parent
        self.calls = []  # (callee qual, lineno, note)
        self.direct = []  # (effect, lineno, detail)


class Analysis:
    def __init__(self, packages=("cubed",), exclude=("cubed/tests", "cubed/diagnostics", "cubed/vendor/dask/array/svg.py",
                                                   "cubed/runtime/executors/", "cubed/icechunk.py")):
        self.fns: dict[str, Fn] = {}
        self.mod_imports: dict[str, dict[str, tuple]] = {}
        self.mod_defs: dict[str, dict[str, str]] = {}
        self.methods_by_name: dict[str, list[str]] = {}
        self.class_methods: dict[str, dict[str, str]] = {}
        self.class_bases: dict[str, list[str]] = {}
        self.exclude = exclude
        self.modules = []
        root = os.path.join(REPO, "cubed")
        for dp, dn, fn in os.walk(root):
            for f in sorted(fn):
                if not f.endswith(".py"):
                    continue
                rel = os.path.relpath(os.path.join(dp, f), REPO)
                if any(rel.startswith(e) for e in exclude):
                    continue
                mod = rel[:-3].replace("/", ".")
                if mod.endswith(".__init__"):
                    mod = mod[: -len(".__init__")]
                self.modules.append((mod, os.path.join(dp, f)))
        for mod, path in self.modules:
            self._index(mod, path)
        for mod, path in self.modules:
            self._resolve_module(mod)
        self.summary = self._fixpoint()

    # ---- indexing
    def _index(self, mod, path):
        tree, _ = parse_module(path)
        imports, defs = {}, {}
        is_pkg = path.endswith("__init__.py")

        def add_imports(body):
            for st in body:
                if isinstance(st, ast.Import):
                    for al in st.names:
                        imports[al.asname or al.name.split(".")[0]] = ("module", al.name if al.asname else al.name.split(".")[0])
                elif isinstance(st, ast.ImportFrom):
                    base = st.module or ""
                    if st.level:
                        pkg = mod.split(".")
                        if not is_pkg:
                            pkg = pkg[:-1]
                        pkg = pkg[: len(pkg) - (st.level - 1)]
                        base = ".".join(pkg + ([st.module] if st.module else []))
                    for al in st.names:
                        imports[al.asname or al.name] = ("from", base, al.name)
                elif isinstance(st, (ast.Try, ast.If)):
                    add_imports(st.body)
                    add_imports(getattr(st, "orelse", []))

        add_imports(tree.body)
        self.mod_imports[mod] = imports
        self.mod_defs[mod] = defs

        def visit(body, prefix, cls, parent):
            for st in body:
                if isinstance(st, (ast.FunctionDef, ast.AsyncFunctionDef)):
                    q = f"{mod}:{prefix}{st.name}"
                    f = Fn(q, st, mod, cls, parent)
                    self.fns[q] = f
                    if not prefix:
                        defs[st.name] = q
                    if cls and prefix == cls.split(":")[1] + ".":
                        self.class_methods.setdefault(cls, {})[st.name] = q
                        self.methods_by_name.setdefault(st.name, []).append(q)
                    visit(st.body, f"{prefix}{st.name}.", None, q)
                elif isinstance(st, ast.ClassDef):
                    cq = f"{mod}:{prefix}{st.name}"
                    if not prefix:
                        defs[st.name] = cq
                    self.class_bases[cq] = [ast.unparse(b) for b in st.bases]
                    visit(st.body, f"{prefix}{st.name}.", cq, parent)
                elif isinstance(st, (ast.If, ast.Try, ast.With, ast.For, ast.While)):
                    visit(getattr(st, "body", []), prefix, cls, parent)
                    visit(getattr(st, "orelse", []), prefix, cls, parent)
                    for h in getattr(st, "handlers", []):
                        visit(h.body, prefix, cls, parent)

        visit(tree.body, "", None, None)

    # ---- resolution
    def resolve_name(self, mod, name, depth=0):
        """module-level name -> ('fn', qual) | ('class', qual) | ('module', name) | ('ext', dotted) | None"""
        if depth > 8:
            return None
        if name in self.mod_defs.get(mod, {}):
            q = self.mod_defs[mod][name]
            return ("fn", q) if q in self.fns else ("class", q)
        imp = self.mod_imports.get(mod, {}).get(name)
        if imp is None:
            return None
        if imp[0] == "module":
            return ("module", imp[1])
        _, base, attr = imp
        if base == "cubed" or base.startswith("cubed."):
            if base in self.mod_defs:
                r = self.resolve_name(base, attr, depth + 1)
                if r is not None:
                    return r
            if f"{base}.{attr}" in self.mod_defs:
                return ("module", f"{base}.{attr}")
            return ("ext", f"{base}.{attr}")
        return ("ext", f"{base}.{attr}")

    def _local_defs(self, f: Fn):
        out = {}
        q = f.qual
        while q is not None:
            fn = self.fns[q]
            for st in ast.walk(fn.node):
                if isinstance(st, (ast.FunctionDef, ast.AsyncFunctionDef)) and st is not fn.node:
                    cand = f"{fn.qual}.{st.name}"
                    if cand in self.fns:
                        out.setdefault(st.name, cand)
            q = fn.parent
        return out

    def _own_nodes(self, node):
        stack = list(node.body)
        while stack:
            n = stack.pop()
            yield n
            for ch in ast.iter_child_nodes(n):
                if isinstance(ch, (ast.FunctionDef, ast.AsyncFunctionDef, ast.ClassDef, ast.Lambda)):
                    # nested defs and lambdas run when *called*: their calls are deferred, not effects of this function
                    continue
                stack.append(ch)

    def _resolve_module(self, mod):
        for q, f in list(self.fns.items()):
            if f.module != mod:
                continue
            local = self._local_defs(f)
            for n in self._own_nodes(f.node):
                if isinstance(n, ast.Subscript) and isinstance(n.ctx, ast.Load):
                    # x[key] on a cubed array reaches CoreArray.__getitem__ -> index (treated by its own contract)
                    continue
                if not isinstance(n, ast.Call):
                    continue
                self._resolve_call(f, n, local)

    def _dotted(self, n):
        if isinstance(n, ast.Name):
            return n.id
        if isinstance(n, ast.Attribute):
            b = self._dotted(n.value)
            return None if b is None else f"{b}.{n.attr}"
        return None

    def _kw(self, call, name):
        for k in call.keywords:
            if k.arg == name:
                return k.value
        return None

    def _resolve_call(self, f: Fn, call: ast.Call, local):
        fn = call.func
        line = call.lineno
        if isinstance(fn, ast.Name):
            nm = fn.id
            if nm in local:
                f.calls.append((local[nm], line, ""))
                return
            r = self.resolve_name(f.module, nm)
            if r is None:
                return
            self._apply(f, r, call, line)
            return
        if isinstance(fn, ast.Attribute):
            dotted = self._dotted(fn)
            base = fn.value
            # module attribute: np.x, zarr.open, shutil.rmtree, nx....
            if isinstance(base, ast.Name):
                r = self.resolve_name(f.module, base.id)
                if r is not None and r[0] == "module":
                    target_mod = r[1]
                    if target_mod in self.mod_defs:
                        r2 = self.resolve_name(target_mod, fn.attr)
                        if r2:
                            self._apply(f, r2, call, line)
                        return
                    full = f"{target_mod}.{fn.attr}"
                    if full in EXT_EFFECTS:
                        f.direct.append((EXT_EFFECTS[full], line, full))
                    return
                if r is not None and r[0] == "class":
                    m = self.class_methods.get(r[1], {}).get(fn.attr)
                    if m:
                        f.calls.append((m, line, "classmethod"))
                    return
                if base.id in ("self", "cls") and f.cls is None and f.parent is None:
                    pass
            meth = fn.attr
            if meth in METHOD_EFFECTS:
                f.direct.append((METHOD_EFFECTS[meth], line, f".{meth}()"))
            # self.method(): resolve within the class (and subclasses/bases by name)
            owner = self._owner_class(f)
            if isinstance(base, ast.Name) and base.id in ("self", "cls") and owner:
                m = self._lookup_method(owner, meth)
                if m:
                    f.calls.append((m, line, "self"))
                    return
            if isinstance(base, ast.Call) and isinstance(base.func, ast.Name) and base.func.id == "super" and owner:
                for b in self.class_bases.get(owner, []):
                    rb = self.resolve_name(f.module, b.split("[")[0])
                    if rb and rb[0] == "class":
                        m = self._lookup_method(rb[1], meth)
                        if m:
                            f.calls.append((m, line, "super"))
                return
            if meth in COMMON or meth.startswith("__"):
                return
            for cand in self.methods_by_name.get(meth, []):
                f.calls.append((cand, line, "by-method-name"))

    def _owner_class(self, f: Fn):
        q = f
        while q is not None:
            if q.cls:
                return q.cls
            q = self.fns.get(q.parent) if q.parent else None
        return None

    def _lookup_method(self, cls, meth, depth=0):
        if depth > 6:
            return None
        m = self.class_methods.get(cls, {}).get(meth)
        if m:
            return m
        mod = cls.split(":")[0]
        for b in self.class_bases.get(cls, []):
            rb = self.resolve_name(mod, b.split("[")[0].split(".")[-1])
            if rb and rb[0] == "class":
                m = self._lookup_method(rb[1], meth, depth + 1)
                if m:
                    return m
        return None

    def _apply(self, f: Fn, r, call, line):
        kind = r[0]
        if kind == "fn":
            q = r[1]
            note = ""
            if q.endswith(":open_storage_array") or q.endswith(":open_zarr_v3_array"):
                mode = self._kw(call, "mode") or (call.args[1] if len(call.args) > 1 else None)
                if isinstance(mode, ast.Constant) and mode.value == "r":
                    f.direct.append(("storage-read-metadata", line, "open_storage_array(mode='r')"))
                    return
                f.direct.append(("storage-open-rw", line, f"open_storage_array(mode={ast.unparse(mode) if mode is not None else '?'})"))
                return
            f.calls.append((q, line, note))
        elif kind == "class":
            init = self._lookup_method(r[1], "__init__")
            if init:
                f.calls.append((init, line, "constructor"))
        elif kind == "ext":
            if r[1] in EXT_EFFECTS:
                f.direct.append((EXT_EFFECTS[r[1]], line, r[1]))

    # ---- summaries
    def _fixpoint(self):
        summ = {q: {} for q in self.fns}  # effect -> witness chain
        for q, f in self.fns.items():
            for eff, line, detail in f.direct:
                summ[q].setdefault(eff, [(q, line, detail)])
        changed = True
        while changed:
            changed = False
            for q, f in self.fns.items():
                for callee, line, note in f.calls:
                    if callee == q or callee not in summ:
                        continue
                    if (q, callee) in self.cut_edges:
                        continue
                    for eff, chain in summ[callee].items():
                        if eff not in summ[q]:
                            summ[q][eff] = [(q, line, f"calls {callee}")] + chain
                            changed = True
        return summ

    cut_edges: set = set()


def public_api():
    """Public names of `cubed` and `cubed.array_api` resolved to function quals (parsed from the __init__ files)."""
    out = {}
    for mod in ("cubed", "cubed.array_api"):
        path = module_path(mod)
        tree, _ = parse_module(path)
        names = []
        for st in tree.body:
            if isinstance(st, (ast.Assign, ast.AugAssign)):
                tgt = st.targets[0] if isinstance(st, ast.Assign) else st.target
                if isinstance(tgt, ast.Name) and tgt.id == "__all__" and isinstance(st.value, ast.List):
                    names += [e.value for e in st.value.elts if isinstance(e, ast.Constant)]
        out[mod] = names
    return out
