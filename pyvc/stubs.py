"""Environment stubs: objects whose method calls are recorded in the ghost effect trace."""
from __future__ import annotations

from . import sym


class Recorder:
    """Every method call `obj.m(...)` appends (label, m) to ctx.effects and returns `ret.get(m)`."""

    _pyvc_opaque = True

    def __init__(self, label, ret=None, attrs=None):
        self.__dict__["_label"] = label
        self.__dict__["_ret"] = ret or {}
        self.__dict__["_attrs"] = attrs or {}

    def __getattr__(self, name):
        if name.startswith("__") and name.endswith("__"):
            raise AttributeError(name)
        if name in self._attrs:
            return self._attrs[name]
        label, ret = self._label, self._ret

        def method(*a, **k):
            sym.cur().effect(label, name, a, k)
            r = ret.get(name)
            return r(*a, **k) if callable(r) else r

        method.__name__ = name
        return method

    def __repr__(self):
        return f"<recorder {self._label}>"
