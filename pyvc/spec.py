"""Contract registry and the per-function verification driver (path exploration by re-execution)."""
from __future__ import annotations

import time
import traceback

import z3

from . import sym
from .interp import Interp
from .sym import (PathBudget, PathCtx, PathEnd, PathInfeasible, PyExc, SBool, SInt, Unsupported, tb, tz, wrap)

REGISTRY: dict[str, "FuncSpec"] = {}
import os as _os

_PROGRESS = bool(_os.environ.get("PYVC_PROGRESS"))


class FuncSpec:
    """Sidecar contract of one real function (keyed by module:qualname, never by line number)."""

    target: str = ""
    name: str = ""  # registry key (defaults to target)
    props: tuple = ()
    doc: str = ""
    max_paths = 4000
    max_seconds = 600
    timeout_ms = 20000
    max_decisions = 400

    def configs(self, tier):
        return [{}]

    def setup(self, c: "Case"):
        """Create symbolic arguments, assume the precondition; return (args, kwargs)."""
        raise NotImplementedError

    def ensures(self, c, args, kwargs, result):
        return []

    def raises(self, c, args, kwargs, exc: PyExc):
        """Return a condition under which this exception is an allowed outcome (None = never allowed)."""
        return None

    def always(self, c, args, kwargs, outcome):
        """(name, term) pairs that must hold whether the call returned or raised"""
        return ()

    def canaries(self, c, args, kwargs, result):
        """Deliberately wrong postconditions: each must be refuted on at least one path."""
        return []

    def install(self, c: "Case"):
        """Install summaries (callee contracts), externals and loop invariants into c.interp."""

    def replay(self, cfg, model, obligation):
        """Return python source (str) that re-runs the real code on the concrete counterexample and sets
        `reproduced` (bool) and `detail` (str); or None if no input can be constructed."""
        return None

    def call(self, c, args, kwargs):
        fn = c.interp.world.lookup(self.target)
        c.interp.root_qual = getattr(fn, "qual", None) or getattr(getattr(fn, "fn", None), "qual", None)
        return c.interp.call(fn, list(args), dict(kwargs))


def register(cls):
    inst = cls()
    inst.name = inst.name or inst.target
    if inst.name in REGISTRY:
        raise RuntimeError(f"duplicate contract {inst.name}")
    REGISTRY[inst.name] = inst
    return cls


class Case:
    """Helper handed to contract code: symbolic inputs and logical combinators that build terms
    without branching."""

    def __init__(self, ctx: PathCtx, interp: Interp, cfg: dict):
        self.ctx = ctx
        self.interp = interp
        self.cfg = cfg
        self.inputs = {}  # name -> symbolic value, for replay/model printing

    def int(self, name, lo=None, hi=None):
        v = self.ctx.named_int(name, lo, hi)
        self.inputs[name] = v
        return v

    def ints(self, name, n, lo=None, hi=None):
        return tuple(self.int(f"{name}{i}", lo, hi) for i in range(n))

    def bool(self, name):
        v = self.ctx.named_bool(name)
        self.inputs[name] = v
        return v

    def assume(self, t):
        self.ctx.assume(tb(t))

    def And(self, *xs):
        xs = [x for x in _flat(xs)]
        if not xs:
            return True
        return wrap(z3.And(*[tb(x) for x in xs]))

    def Or(self, *xs):
        xs = [x for x in _flat(xs)]
        if not xs:
            return False
        return wrap(z3.Or(*[tb(x) for x in xs]))

    def Not(self, x):
        return wrap(z3.Not(tb(x)))

    def implies(self, a, b):
        return wrap(z3.Implies(tb(a), tb(b)))

    def ite(self, c, a, b):
        return wrap(z3.If(tb(c), tz(a), tz(b)))

    def eq_tuple(self, a, b):
        a, b = tuple(a), tuple(b)
        if len(a) != len(b):
            return False
        return self.And(*[x == y for x, y in zip(a, b)])

    def prod(self, xs):
        r = 1
        for x in xs:
            r = r * x
        return r

    def min(self, a, b):
        return self.ite(a <= b, a, b)

    def max(self, a, b):
        return self.ite(a >= b, a, b)


def _flat(xs):
    for x in xs:
        if isinstance(x, (list, tuple)) or hasattr(x, "__next__"):
            yield from _flat(x)
        else:
            yield x


class ObAgg:
    __slots__ = ("name", "kind", "paths", "discharged", "failed", "unknown", "solver_s", "backends", "first_fail", "wheres")

    def __init__(self, name, kind):
        self.name, self.kind = name, kind
        self.paths = self.discharged = self.failed = self.unknown = 0
        self.solver_s = 0.0
        self.backends = set()
        self.first_fail = None
        self.wheres = set()

    @property
    def result(self):
        if self.failed:
            return "failed"
        if self.unknown:
            return "unknown"
        return "discharged"

    def as_dict(self):
        return dict(name=self.name, kind=self.kind, result=self.result, paths=self.paths,
                    backend="+".join(sorted(self.backends)), solver_s=round(self.solver_s, 4),
                    where=sorted(self.wheres)[:4], failure=self.first_fail)


class RunResult:
    def __init__(self, spec, cfg):
        self.spec_name = spec.name
        self.target = spec.target
        self.cfg = cfg
        self.obs: dict[str, ObAgg] = {}
        self.paths = 0
        self.scoped_paths = 0
        self.infeasible = 0
        self.undecided = []  # reasons (Unsupported / budget)
        self.assumptions = set()
        self.canaries = {}  # name -> refuted?
        self.cover = None
        self.wall_s = 0.0
        self.solver_s = 0.0
        self.errors = []  # checker crashes
        self.outcomes = {"return": 0}

    def as_dict(self):
        return dict(
            spec=self.spec_name, target=self.target, cfg=self.cfg, paths=self.paths, scoped_paths=self.scoped_paths,
            infeasible=self.infeasible,
            undecided=self.undecided[:10], assumptions=sorted(self.assumptions), canaries=self.canaries,
            cover=self.cover, wall_s=round(self.wall_s, 3), solver_s=round(self.solver_s, 3), errors=self.errors[:5],
            outcomes=self.outcomes, obligations=[o.as_dict() for o in self.obs.values()],
        )


def _add(res: RunResult, ob, trace, cfg):
    a = res.obs.get(ob.name)
    if a is None:
        a = res.obs[ob.name] = ObAgg(ob.name, ob.kind)
    a.paths += 1
    a.solver_s += ob.solver_s
    a.backends.add(ob.backend)
    if ob.where:
        a.wheres.add(str(ob.where))
    if ob.result == "discharged":
        a.discharged += 1
    elif ob.result == "failed":
        a.failed += 1
        if a.first_fail is None:
            a.first_fail = dict(model=ob.model, where=ob.where, detail=ob.detail, path=list(trace), cfg=cfg)
    else:
        a.unknown += 1


THOROUGH_FACTOR = float(__import__("os").environ.get("PYVC_THOROUGH_FACTOR", "2"))  # time budget per configuration, x quick


def verify(spec: FuncSpec, cfg: dict, tier="quick", exclude=()) -> RunResult:
    res = RunResult(spec, cfg)
    t0 = time.time()
    work = [([], None)]
    timeout_ms = spec.timeout_ms if tier == "quick" else max(spec.timeout_ms, 120000)
    canary_seen = {}
    while work:
        if res.paths >= spec.max_paths:
            res.undecided.append(f"path budget {spec.max_paths} exhausted")
            break
        prefix, end_scope = work.pop()
        if _PROGRESS and res.paths % 20 == 0:
            print(f"[progress] {spec.name} {cfg} paths={res.paths} pending={len(work)} t={time.time()-t0:.1f}s solver={res.solver_s:.1f}", flush=True)
        if time.time() - t0 > spec.max_seconds * (1 if tier == "quick" else THOROUGH_FACTOR):
            res.undecided.append(f"time budget {spec.max_seconds}s exhausted after {res.paths} paths")
            break
        ctx = PathCtx(prefix, timeout_ms=timeout_ms, max_decisions=spec.max_decisions, end_scope=end_scope)
        sym.set_cur(ctx)
        bt = getattr(spec, "branch_timeout_ms", None)
        if bt is not None:
            ctx.branch_timeout_ms = bt
        outcome = None
        try:
            interp = Interp(ctx)
            c = Case(ctx, interp, dict(cfg, _tier=tier))
            ctx.case = c
            spec.install(c)
            args, kwargs = spec.setup(c)

            def _exc_check(e, c=c, args=None, kwargs=None):
                allowed = spec.raises(c, c._args, c._kwargs, e)
                oname = f"exceptions-as-declared[{e.tname}]"
                if isinstance(allowed, tuple):
                    oname, allowed = allowed
                ctx.oblige(oname, False if allowed is None else allowed, kind="raises", where=e.where,
                           detail=f"{e.tname}{e.eargs!r}"[:200], assume_after=False)

            c._args, c._kwargs = args, kwargs
            ctx.exc_checker = _exc_check
            for expr in exclude:
                # known-finding witness classes: look only for failures *outside* the recorded class
                try:
                    cls = eval(expr, {"__builtins__": {}}, dict(c.inputs))
                except NameError:
                    continue
                ctx.assume(z3.Not(tb(cls)))
            if not res.cover:
                # vacuity guard: some explored path must satisfy the precondition.  A path whose own setup decisions
                # contradict the precondition (or that lies inside an excluded known-finding class) is just infeasible;
                # the contract is vacuous only if *no* path is satisfiable (decided after the exploration).
                r, _ = ctx._check()
                if r == z3.sat:
                    res.cover = True
                elif r == z3.unsat:
                    raise PathInfeasible()
            try:
                result = spec.call(c, args, kwargs)
                outcome = ("return", result)
            except PyExc as e:
                outcome = ("raise", e)
            if outcome[0] == "return":
                res.outcomes["return"] += 1
                for name, term in spec.ensures(c, args, kwargs, outcome[1]) or []:
                    ctx.oblige(name, term, kind="ensures", assume_after=False)
                for name, term in spec.canaries(c, args, kwargs, outcome[1]) or []:
                    t = tb(term)
                    r, _ = ctx._check(z3.Not(t))
                    # refuted (sat) on some path: the wrong clause is visible.  A solver `unknown` is inconclusive, not a
                    # proof of the wrong clause: only `unsat` on every path counts as "not refuted".
                    prev = canary_seen.get(name, False)
                    canary_seen[name] = True if (prev is True or r == z3.sat) else (None if (prev is None or r != z3.unsat) else False)
            else:
                e = outcome[1]
                key = f"raise:{e.tname}"
                res.outcomes[key] = res.outcomes.get(key, 0) + 1
                if not getattr(e, "checked", False):
                    _exc_check(e)
            # clauses that hold however the call ends (frame/effect clauses)
            for name, term in spec.always(c, args, kwargs, outcome) or []:
                ctx.oblige(name, term, kind="ensures", assume_after=False)
            res.paths += 1
        except PathInfeasible:
            res.infeasible += 1
        except PathEnd:
            res.scoped_paths += 1
        except Unsupported as u:
            res.paths += 1
            res.undecided.append(f"unsupported: {u}")
            import os
            if os.environ.get("PYVC_DEBUG"):
                traceback.print_exc()
        except PathBudget as u:
            res.paths += 1
            res.undecided.append(f"budget: {u}")
        except (RecursionError,) as u:
            res.undecided.append(f"recursion: {u}")
        except Exception as u:  # noqa: BLE001  checker crash, never a violation
            import os
            if os.environ.get("PYVC_DEBUG"):
                traceback.print_exc()
            res.errors.append("".join(traceback.format_exception_only(type(u), u)).strip() + " @ " +
                              traceback.format_exc(limit=-6)[-1500:])
        finally:
            for ob in ctx.obligations:
                _add(res, ob, ctx.trace, cfg)
            res.assumptions |= ctx.assumptions
            res.solver_s += ctx.solver_s
            work.extend(ctx.pending)
            sym.set_cur(None)
        if len(res.errors) > 3 or len(res.undecided) > 50:
            break
    if not res.cover and not exclude and not res.errors and not res.undecided and res.paths == 0:
        res.cover = False
        res.errors.append("vacuous precondition: requires is unsatisfiable on every path")
    res.canaries = canary_seen
    res.wall_s = time.time() - t0
    return res
