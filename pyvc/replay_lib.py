"""Native replay helpers (run under /venv/bin/python with cubed imported from the tree under test).

`run_array_case` builds real arrays from the verifier's model, builds the expression with the real public
function, computes it with the single-threaded executor and compares with NumPy.  Verdict:
  reproduced = True   the real code misbehaves on this input (wrong value, or a failure inside execution, or an
                      internal assertion / incidental exception at build time)
  reproduced = False  the real code is right here (equal to NumPy, or an explicit up-front refusal)
"""
import tempfile
import traceback

EXPLICIT = (ValueError, TypeError, NotImplementedError, IndexError)


def model_array(model, label, ndim, fixed=None, offset=0):
    import numpy as np

    shape = tuple((fixed or {}).get(i, model.get(f"{label}_n{i}", 0)) for i in range(ndim))
    chunks = tuple(max(1, model.get(f"{label}_c{i}", 1)) for i in range(ndim))
    n = 1
    for s in shape:
        n *= s
    a = (np.arange(n, dtype="int64") + offset).reshape(shape)
    return a, chunks


class _CheckedTarget:
    """wraps the opened target of a write proxy: records writes whose block shape differs from the region's (zarr
    silently broadcasts/truncates such blocks) — the C12 clause on the real task"""

    def __init__(self, arr, log):
        object.__setattr__(self, "_arr", arr)
        object.__setattr__(self, "_log", log)

    def __getattr__(self, name):
        return getattr(self._arr, name)

    def __getitem__(self, sel):
        return self._arr[sel]

    def __setitem__(self, sel, val):
        import numpy as np

        try:
            if isinstance(sel, tuple) and all(isinstance(s_, slice) for s_ in sel):
                want = tuple(s_.stop - s_.start for s_ in sel)
                got = tuple(np.shape(val))
                if got != want:
                    self._log.append(f"block of shape {got} written into a region of shape {want}")
        except Exception:  # noqa: BLE001
            pass
        self._arr[sel] = val


def install_block_shape_check():
    from cubed.primitive import types as T

    log = []
    orig = T.CubedArrayProxy.open

    def open_(self):
        return _CheckedTarget(orig(self), log)

    T.CubedArrayProxy.open = open_
    return log


def run_array_case(build, reference, arrays, allowed_mem=2_000_000_000):
    """arrays: dict label -> (numpy array, chunks). build(xp, cubed_arrays) -> cubed array or tuple;
    reference(np, numpy_arrays) -> numpy array or tuple."""
    import numpy as np

    import cubed
    import cubed.array_api as xp

    tmp = tempfile.mkdtemp(prefix="pyvc-replay-")
    spec = cubed.Spec(work_dir=tmp, allowed_mem=allowed_mem)
    try:
        try:
            want = reference(np, {k: v[0] for k, v in arrays.items()})
        except Exception as e:  # NumPy itself cannot evaluate: nothing is claimed
            return False, f"NumPy raises {type(e).__name__}: {e} — outside the property's precondition"
        try:
            carr = {k: xp.asarray(v[0], chunks=v[1], spec=spec) for k, v in arrays.items()}
            carr["__spec__"] = spec
            shape_log = install_block_shape_check()
            res = build(xp, carr)
        except EXPLICIT as e:
            return False, f"declined at build time with {type(e).__name__}: {e}"
        except Exception as e:
            return True, f"build raised {type(e).__name__}: {e} (internal assertion / incidental exception)"
        try:
            from cubed.runtime.executors.local import SingleThreadedExecutor

            ex = SingleThreadedExecutor()
            if isinstance(res, (tuple, list)):
                got = cubed.compute(*res, executor=ex)
            else:
                got = res.compute(executor=ex)
        except Exception as e:
            tb = traceback.format_exc().strip().splitlines()[-1]
            return True, f"failed after execution started: {type(e).__name__}: {e} [{tb}]"
        wl = list(want) if isinstance(want, (tuple, list)) else [want]
        gl = list(got) if isinstance(got, (tuple, list)) else [got]
        if len(wl) != len(gl):
            return True, f"{len(gl)} results, NumPy gives {len(wl)}"
        for g, w in zip(gl, wl):
            g = np.asarray(g)
            w = np.asarray(w)
            if g.shape != w.shape:
                return True, f"shape {g.shape} != NumPy's {w.shape}"
            if not np.array_equal(g, w):
                return True, f"values differ from NumPy: got {g.tolist()!r:.300} want {w.tolist()!r:.300}"
        if shape_log:
            return True, f"values equal NumPy's, but {len(shape_log)} task(s) wrote a mis-shaped block: {shape_log[0]}"
        return False, "equal to NumPy"
    finally:
        import shutil

        shutil.rmtree(tmp, ignore_errors=True)


def run_lazy_case(build):
    """C16 replay: build(xp, cubed, spec) composes an expression; reproduced == something was executed or written while
    it was being built (compute spy + work_dir listing)."""
    import os

    import cubed
    import cubed.array_api as xp
    import cubed.core.array as ca

    tmp = tempfile.mkdtemp(prefix="pyvc-replay-")
    spec = cubed.Spec(work_dir=tmp, allowed_mem=2_000_000_000)
    calls = []
    orig = ca.CoreArray.compute

    def spy(self, *a, **k):
        calls.append(self.name)
        return orig(self, *a, **k)

    ca.CoreArray.compute = spy
    try:
        try:
            build(xp, cubed, spec)
            how = "built"
        except EXPLICIT as e:
            how = f"declined with {type(e).__name__}"
        except Exception as e:  # noqa: BLE001
            how = f"raised {type(e).__name__}: {e}"
        files = [os.path.join(d, f) for d, _, fs in os.walk(tmp) for f in fs]
        if calls or files:
            return True, f"{how}; while building: compute() called on {calls}, {len(files)} file(s) written under work_dir"
        return False, f"{how}; nothing executed, nothing written"
    finally:
        ca.CoreArray.compute = orig
        import shutil

        shutil.rmtree(tmp, ignore_errors=True)
