"""Extraction of the real source: modules of /repo are parsed with `ast` on every run.

Nothing of cubed is imported in the proving process.  What the extraction drops, exactly:
type annotations, `@overload` stubs, docstrings, `logger.*`/`print`/`warnings.warn` calls
(evaluated for their arguments' exceptions only, result discarded), `typing.cast` (identity).
"""
from __future__ import annotations

import ast
import importlib
import os

from .sym import Unsupported

REPO = os.environ.get("PYVC_REPO", "/repo")

_AST_CACHE: dict[str, tuple[float, ast.Module, str]] = {}


def module_path(modname: str):
    rel = modname.replace(".", "/")
    for cand in (f"{REPO}/{rel}.py", f"{REPO}/{rel}/__init__.py"):
        if os.path.exists(cand):
            return cand
    return None


def parse_module(path: str):
    st = os.stat(path).st_mtime
    ent = _AST_CACHE.get(path)
    if ent and ent[0] == st:
        return ent[1], ent[2]
    src = open(path).read()
    tree = ast.parse(src, filename=path)
    for node in ast.walk(tree):
        for ch in ast.iter_child_nodes(node):
            ch._parent = node  # type: ignore[attr-defined]
    _AST_CACHE[path] = (st, tree, src)
    return tree, src


class ExternalStub:
    """A third-party object that is not available (or not executed) in the proving process.
    Attribute access yields child stubs; calling one consults the assumed-contract table."""

    _pyvc_stub = True

    def __init__(self, qual, world=None):
        object.__setattr__(self, "_qual", qual)
        object.__setattr__(self, "_world", world)

    def __getattr__(self, name):
        if name.startswith("__") and name.endswith("__"):
            raise AttributeError(name)
        return ExternalStub(f"{self._qual}.{name}", self._world)

    def __call__(self, *a, **k):
        w = self._world
        if w is not None and self._qual in w.externals:
            return w.externals[self._qual](*a, **k)
        raise Unsupported(f"call of unmodelled external {self._qual}")

    def __repr__(self):
        return f"<external {self._qual}>"

    def __mro_entries__(self, bases):
        return ()


# external modules that are executed natively in the prover (pure stdlib / numpy / networkx)
NATIVE_MODULES = {
    "math", "itertools", "functools", "operator", "numbers", "collections", "collections.abc",
    "dataclasses", "typing", "builtins", "copy", "bisect", "warnings", "logging", "inspect",
    "enum", "numpy", "networkx", "time", "datetime", "uuid", "tempfile", "posixpath",
    "urllib.parse", "pathlib", "types", "sys", "platform", "sysconfig", "traceback", "abc",
    "asyncio", "atexit", "shutil", "os", "contextlib", "random", "threading", "concurrent.futures",
    "multiprocessing", "string", "re", "json",
}


_TOOLZ = []


def _load_toolz():
    """toolz is pure python and only installed in /venv: load it by path (tlz == toolz without cytoolz)."""
    if _TOOLZ:
        return _TOOLZ[0]
    import importlib.util
    import sys

    d = "/venv/lib/python3.12/site-packages/toolz"
    if "toolz" not in sys.modules:
        sp = importlib.util.spec_from_file_location("toolz", d + "/__init__.py", submodule_search_locations=[d])
        m = importlib.util.module_from_spec(sp)
        sys.modules["toolz"] = m
        sp.loader.exec_module(m)
    _TOOLZ.append(sys.modules["toolz"])
    return _TOOLZ[0]


class IModule:
    def __init__(self, world, name, path):
        self.world = world
        self.name = name
        self.path = path
        self.tree, self.src = parse_module(path)
        self.globals: dict = {}
        self._defs: dict[str, list] = {}
        self._index(self.tree.body)
        self._resolving = set()

    def _index(self, body):
        for st in body:
            if isinstance(st, (ast.FunctionDef, ast.AsyncFunctionDef, ast.ClassDef)):
                self._defs.setdefault(st.name, []).append(st)
            elif isinstance(st, ast.Assign):
                for t in st.targets:
                    for n in _target_names(t):
                        self._defs.setdefault(n, []).append(st)
            elif isinstance(st, ast.AnnAssign) and st.value is not None:
                for n in _target_names(st.target):
                    self._defs.setdefault(n, []).append(st)
            elif isinstance(st, (ast.Import, ast.ImportFrom)):
                for al in st.names:
                    nm = al.asname or al.name.split(".")[0]
                    self._defs.setdefault(nm, []).append(st)
            elif isinstance(st, ast.Try):
                self._index(st.body)
            elif isinstance(st, ast.If):
                # `if TYPE_CHECKING:` is dropped; other module-level ifs: index both arms
                if not (isinstance(st.test, ast.Name) and st.test.id == "TYPE_CHECKING"):
                    self._index(st.body)
                    self._index(st.orelse)

    def has(self, name):
        return name in self.globals or name in self._defs

    def get(self, name):
        if name in self.globals:
            return self.globals[name]
        if name not in self._defs:
            if name == "__name__":
                return self.name
            raise KeyError(name)
        if name in self._resolving:
            raise Unsupported(f"cyclic module-level definition {self.name}.{name}")
        self._resolving.add(name)
        try:
            st = self._defs[name][-1]
            interp = self.world.interp
            if isinstance(st, (ast.FunctionDef, ast.AsyncFunctionDef, ast.ClassDef)):
                v = interp.make_def(st, None, self)
                self.globals[name] = v
            elif isinstance(st, (ast.Import, ast.ImportFrom)):
                v = self.world.resolve_import(self, st, name)
                self.globals[name] = v
            else:
                fr = interp.module_frame(self)
                interp.exec_stmt(st, fr)
                if name not in self.globals:
                    raise Unsupported(f"module-level assignment did not bind {name}")
                v = self.globals[name]
        finally:
            self._resolving.discard(name)
        return v

    def __repr__(self):
        return f"<IModule {self.name}>"


def _target_names(t):
    if isinstance(t, ast.Name):
        yield t.id
    elif isinstance(t, (ast.Tuple, ast.List)):
        for e in t.elts:
            yield from _target_names(e)


class World:
    """All mutable state of one path execution: module globals, summaries, externals."""

    def __init__(self, interp):
        self.interp = interp
        self.modules: dict[str, IModule] = {}
        self.summaries: dict[str, object] = {}  # "module:qualname" -> callable(interp, args, kwargs)
        self.externals: dict[str, object] = {}  # "pkg.func" -> callable
        self.native_overrides: dict[str, object] = {}  # "module.func" of a native callable -> callable
        self.module_overrides: dict[str, object] = {}  # module name -> object replacing the module

    def module(self, name) -> IModule | None:
        if name in self.modules:
            return self.modules[name]
        path = module_path(name)
        if path is None:
            return None
        m = IModule(self, name, path)
        self.modules[name] = m
        return m

    def import_module(self, name):
        if name in self.module_overrides:
            return self.module_overrides[name]
        if name == "cubed" or name.startswith("cubed."):
            m = self.module(name)
            if m is None:
                raise Unsupported(f"repo module {name} not found")
            return m
        top = name.split(".")[0]
        if top in ("toolz", "tlz"):
            return _load_toolz()
        if name in NATIVE_MODULES or top in ("math", "itertools", "functools", "operator", "numpy", "networkx", "collections"):
            try:
                return importlib.import_module(name)
            except ImportError:
                return ExternalStub(name, self)
        return ExternalStub(name, self)

    def import_from(self, modname, attr):
        if modname in self.module_overrides:
            return getattr(self.module_overrides[modname], attr)
        m = self.import_module(modname)
        if isinstance(m, IModule):
            if m.has(attr):
                return m.get(attr)
            sub = self.module(f"{modname}.{attr}")
            if sub is not None:
                return sub
            raise Unsupported(f"cannot import {attr} from {modname}")
        if isinstance(m, ExternalStub):
            return getattr(m, attr)
        try:
            return getattr(m, attr)
        except AttributeError:
            try:
                return importlib.import_module(f"{modname}.{attr}")
            except ImportError:
                return ExternalStub(f"{modname}.{attr}", self)

    def resolve_import(self, mod: IModule, st, bound_name):
        if isinstance(st, ast.Import):
            for al in st.names:
                nm = al.asname or al.name.split(".")[0]
                if nm == bound_name:
                    if al.asname:
                        return self.import_module(al.name)
                    return self.import_module(al.name.split(".")[0])
        else:
            base = st.module or ""
            if st.level:
                pkg = mod.name.split(".")
                if not mod.path.endswith("__init__.py"):
                    pkg = pkg[:-1]
                pkg = pkg[: len(pkg) - (st.level - 1)]
                base = ".".join(pkg + ([st.module] if st.module else []))
            for al in st.names:
                nm = al.asname or al.name
                if nm == bound_name:
                    return self.import_from(base, al.name)
        raise Unsupported(f"import of {bound_name} not resolved in {mod.name}")

    def lookup(self, qual):
        """'pkg.mod:Class.method' or 'pkg.mod:func' -> value."""
        modname, _, path = qual.partition(":")
        m = self.module(modname)
        if m is None:
            raise KeyError(qual)
        parts = path.split(".")
        v = m.get(parts[0])
        for p in parts[1:]:
            v = self.interp.getattr_(v, p)
        return v


def find_function_node(modname, qualpath):
    """Static lookup (no evaluation) of a def node, including nested defs: 'outer.inner'."""
    path = module_path(modname)
    if path is None:
        return None
    tree, _ = parse_module(path)
    body = tree.body
    node = None
    for part in qualpath.split("."):
        found = None
        for st in ast.walk(ast.Module(body=body, type_ignores=[])) if node is not None else body:
            if isinstance(st, (ast.FunctionDef, ast.AsyncFunctionDef, ast.ClassDef)) and st.name == part:
                found = st
        if found is None:
            return None
        node = found
        body = found.body
    return node
