"""Assumed contract of zarr's OrthogonalIndexer over a (regular or explicit) chunk grid, for basic selections
(slices with step 1 / None, one per axis): iterating yields, in row-major order of the intersected chunks, a
ChunkProjection(chunk_coords, chunk_selection, out_selection, is_complete_chunk) with the obvious interval arithmetic;
`.shape` is the shape of the selection.  The out_selections of distinct projections are pairwise disjoint and cover
the selection (used by the scatter-loop rule).  Validated differentially against the real zarr in the thorough tier.

Per axis with extent n, chunk size c, selection [a, b) (after clipping to [0, n]):
   first = a // c, last = (b-1) // c, m = last - first + 1 chunks (0 if a >= b);
   for j in [0, m): q = first + j, chunk [q*c, min((q+1)*c, n)),
        lo = max(a, q*c), hi = min(b, chunk end), chunk_selection = [lo - q*c, hi - q*c), out_selection = [lo - a, hi - a)
"""
from __future__ import annotations

from collections import namedtuple

import z3

from . import sym
from .sym import PyExc, SInt, Unsupported, tb, tz, wrap
from .symseq import ChunkSeq, Grid, MapSeq, SymSeq

ChunkProjection = namedtuple("ChunkProjection", "chunk_coords chunk_selection out_selection is_complete_chunk")


def _clip(v, n, default):
    """python slice bound normalisation for step 1 on extent n -> term in [0, n]"""
    if v is None:
        return default
    vz, nz = tz(v), tz(n)
    try:
        if sym.cur().entails(z3.And(vz >= 0, vz <= nz)):
            return v
    except Unsupported:
        pass
    return wrap(z3.If(vz < 0, z3.If(vz + nz < 0, z3.IntVal(0), vz + nz), z3.If(vz > nz, nz, vz)))


class Axis:
    """one axis of the indexer: regular grid (n, c)"""

    def __init__(self, interp, sl, n, grid_or_c):
        ctx = interp.ctx
        self.n = n
        if isinstance(sl, slice):
            if sl.step is not None and not (isinstance(sl.step, int) and sl.step == 1):
                raise Unsupported("zarr indexer contract: slice with a step")
            a = _clip(sl.start, n, 0)
            b = _clip(sl.stop, n, n)
            self.drop = False
        elif isinstance(sl, (int, SInt)) and not isinstance(sl, bool):
            # integer selection (IntDimIndexer): one chunk, the axis is dropped from the result
            i = sl
            if interp.truth(i < 0):
                i = i + n
            if interp.truth(wrap(z3.Or(tz(i) < 0, tz(i) >= tz(n)))):
                raise PyExc(IndexError, ("index out of bounds for dimension",))
            self.drop = True
            self.a, self.b = i, i + 1
            if not isinstance(grid_or_c, (int, SInt)):
                raise Unsupported("zarr indexer contract: explicit (rectilinear) chunk sizes")
            self.c = grid_or_c
            self.grid = None
            self.empty = False
            q = ctx.fresh_int("iq", lo=0)
            ctx.assume_def(z3.Implies(z3.And(tz(self.c) >= 1, tz(i) >= 0), z3.And(q.t * tz(self.c) <= tz(i), tz(i) < (q.t + 1) * tz(self.c))))
            ctx.register_quotient(q, i, self.c)
            self.first = self.last = q
            self.m = 1
            return
        else:
            raise Unsupported(f"zarr indexer contract: selection item {type(sl).__name__}")
        if interp.truth(b < a):
            b = a
        self.a, self.b = a, b
        if isinstance(grid_or_c, (int, SInt)):
            self.c = grid_or_c
            self.grid = None
        else:
            raise Unsupported("zarr indexer contract: explicit (rectilinear) chunk sizes")
        c = self.c
        self.empty = interp.truth(a == b)
        if self.empty:
            self.m = 0
            self.first = self.last = 0
            return
        # division-free definition of first/last
        first = ctx.fresh_int("first", lo=0)
        last = ctx.fresh_int("last", lo=0)
        ctx.assume_def(z3.Implies(z3.And(tz(c) >= 1, tz(a) >= 0), z3.And(first.t * tz(c) <= tz(a), tz(a) < (first.t + 1) * tz(c))))
        ctx.assume_def(z3.Implies(z3.And(tz(c) >= 1, tz(b) >= 1), z3.And(last.t * tz(c) <= tz(b) - 1, tz(b) - 1 < (last.t + 1) * tz(c))))
        ctx.assume_def(z3.Implies(z3.And(tz(c) >= 1, tz(a) < tz(b)), first.t <= last.t))
        self.first, self.last = first, last
        self.m = last - first + 1
        ctx.register_quotient(first, a, c)
        ctx.register_quotient(last, b - 1, c)

    def proj(self, interp, j):
        """(chunk coord q, chunk_selection slice, out_selection slice, complete?) for the j-th intersected chunk"""
        a, b, c, n = self.a, self.b, self.c, self.n
        if self.drop:
            q = self.first
            return q, a - q * c, None
        q = self.first + j
        at_first = interp.truth(j == 0)
        at_last = interp.truth(j == self.m - 1)
        lo = a if at_first else q * c
        if at_last:
            hi = b
        else:
            hi = (q + 1) * c
        cs = slice(lo - q * c, hi - q * c)
        os_ = slice(lo - a, hi - a)
        return q, cs, os_


class SymIndexer(SymSeq):
    lazy = False

    def __init__(self, interp, selection, shape, chunks):
        shape = tuple(shape)
        if not isinstance(selection, tuple):
            selection = (selection,)
        selection = tuple(selection) + (slice(None),) * (len(shape) - len(selection))
        if len(selection) != len(shape) or len(chunks) != len(shape):
            raise PyExc(IndexError, ("too many indices for array",))
        sig = _sig(selection, shape, chunks)
        cache = interp.ctx.ghost.setdefault("indexers", {})
        if sig in cache:
            self.axes, self._proj, _keep = cache[sig]
        else:
            interp.ctx.note_assumption("zarr OrthogonalIndexer / ChunkGrid contract assumed (interval arithmetic per axis, row-major, "
                                       "out_selections partition the selection)")
            self.axes = [Axis(interp, sl, n, c) for sl, n, c in zip(selection, shape, chunks)]
            self._proj = {}
            cache[sig] = (self.axes, self._proj, (selection, shape, chunks))  # keeps the key terms alive
        self.shape = tuple(ax.b - ax.a for ax in self.axes if not ax.drop)
        self.interp = interp

    def length(self):
        n = 1
        for ax in self.axes:
            n = n * ax.m
        return n

    def get(self, interp, k):
        key = ("c", k) if isinstance(k, int) else tz(k).get_id()
        hit = self._proj.get(key)
        if hit is not None and (isinstance(k, int) or hit[0].eq(tz(k))):
            js = hit[1]
        else:
            ctx = interp.ctx
            js = []
            for ax in self.axes:
                if isinstance(ax.m, int) and ax.m == 1:
                    js.append(0)
                    continue
                j = ctx.fresh_int("pj", lo=0)
                ctx.assume(j < ax.m)
                js.append(j)
            self._proj[key] = (None if isinstance(k, int) else tz(k), js)
        coords, csel, osel = [], [], []
        for ax, j in zip(self.axes, js):
            q, cs, os_ = ax.proj(interp, j)
            coords.append(q)
            csel.append(cs)
            if os_ is not None:
                osel.append(os_)
        return ChunkProjection(tuple(coords), tuple(csel), tuple(osel), False)

    def _pyvc_getattr(self, interp, name):
        if name == "shape":
            return self.shape
        raise PyExc(AttributeError, (name,))


def _sig(selection, shape, chunks):
    def one(v):
        if v is None:
            return "N"
        if isinstance(v, int):
            return ("i", v)
        if isinstance(v, slice):
            return ("s", one(v.start), one(v.stop), one(v.step))
        if sym.is_sym(v):
            return ("t", tz(v).get_id())
        if isinstance(v, (tuple, list)):
            return tuple(one(x) for x in v)
        return ("o", id(v))

    return (one(tuple(selection)), one(tuple(shape)), one(tuple(chunks)))


def unzip(interp, seq):
    """zip(*seq) for a symbolic-length sequence of fixed-arity tuples: a tuple of column sequences."""
    ctx = interp.ctx
    n = seq.length()
    arity = None
    ctx.push()
    try:
        k = ctx.fresh_int("uz", lo=0)
        ctx.assume(k < n)
        if ctx.feasible():
            arity = len(seq.get(interp, k))
    finally:
        ctx.pop()
    if arity is None:
        return ()
    cols = []
    for i in range(arity):
        cols.append(MapSeq(seq, (lambda e, i=i: e[i])))
    return tuple(cols)


def _src_index(loc, ssel, dsel):
    """index into the source block for destination position `loc`: slices advance with the destination axes, integer
    selections (dropped axes) are fixed"""
    out, k = [], 0
    for s_ in ssel:
        if isinstance(s_, slice):
            out.append(s_.start + (loc[k] - dsel[k].start))
            k += 1
        else:
            out.append(s_)
    return tuple(out)


class ScatterLoop:
    """Loop contract for   for blk, src_sel, dst_sel in zip(blocks, src_selections, dst_selections): out[dst_sel] = blk[src_sel]
    over a symbolic number of pieces:
      generic iteration   the body raises nothing (in particular the two selections have equal shapes) and is exactly that
                          assignment (checked on the block's provenance at a generic element of dst_sel);
      exit                every element of `out` comes from the piece whose dst_sel contains it — using the indexer
                          contract that the dst selections are pairwise disjoint and cover `out`."""

    def __init__(self, name, out_var="out"):
        self.name, self.out_var = name, out_var

    def run_for(self, interp, st, fr, it):
        from .arrays import SymBlock
        from .interp import _Continue

        ctx = interp.ctx
        if not isinstance(it, SymSeq) or it.concrete_len():
            for x in interp.iterate(it):
                interp.assign(st.target, x, fr)
                interp.exec_block(st.body, fr)
            return
        m = it.length()
        out0 = fr.locals[self.out_var]
        shape = out0.shape
        if ctx.feasible(tb(m > 0)):
            ctx.push()
            try:
                j = ctx.fresh_int("sj", lo=0)
                ctx.assume(j < m)
                elem = it.get(interp, j)
                scratch = SymBlock(shape, out0.dtype, (lambda loc: ("<before>", tuple(loc))), "out", view_of=out0)
                fr.locals[self.out_var] = scratch
                interp.assign(st.target, elem, fr)
                try:
                    interp.exec_block(st.body, fr)
                except _Continue:
                    pass
                except PyExc as e:
                    ctx.check_exception_now(e)
                    raise
                blk, ssel, dsel = elem[0], elem[1], elem[2]
                after = fr.locals[self.out_var]
                # the body is exactly  out[dsel] = blk[ssel]
                loc = tuple(ctx.fresh_int(f"sl{i}", lo=0) for i in range(len(shape)))
                ctx.assume(z3.And(*[tb((l >= d.start) & (l < d.stop)) for l, d in zip(loc, dsel)]) if shape else True)
                if ctx.feasible() and getattr(blk, "origin", None) is not None and after.origin is not None:
                    got = after.origin(loc)
                    want = blk.origin(_src_index(loc, ssel, dsel))
                    ok = got[0] == want[0] and len(got[1]) == len(want[1])
                    ctx.oblige(f"loop[{self.name}]:body-is-the-scatter-assignment", z3.And(*[tz(x) == tz(y) for x, y in zip(got[1], want[1])]) if ok and got[1] else ok, kind="invariant")
            finally:
                ctx.pop()
        # exit state
        pieces = it

        def origin(loc):
            q = ctx.fresh_int("piece", lo=0)
            ctx.assume(q < m)
            e = pieces.get(interp, q)
            blk, ssel, dsel = e[0], e[1], e[2]
            ctx.assume(z3.And(*[tb((l >= d.start) & (l < d.stop)) for l, d in zip(loc, dsel)]) if loc else True)
            if getattr(blk, "origin", None) is None:
                return ("<computed>", ())
            return blk.origin(_src_index(loc, ssel, dsel))

        fr.locals[self.out_var] = SymBlock(shape, out0.dtype, origin, "assembled", view_of=out0)  # the same buffer, filled
