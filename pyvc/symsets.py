"""Sets and dicts over an uninterpreted sort (futures, inputs): z3 arrays `Elem -> Bool` / `Elem -> V`.

Set-builder values are fresh arrays with quantified defining axioms (not z3 lambdas); membership-style
invariants stay in the array-property fragment.  Cardinality is not modelled (len() of a symbolic set is an
arbitrary non-negative integer), which over-approximates soundly.
"""
from __future__ import annotations

import z3

from . import sym
from .sym import PyExc, SBool, SInt, SReal, Unsupported, tb, tz, wrap

FUT = z3.DeclareSort("Fut")
INP = z3.DeclareSort("Inp")


class EVal:
    """A value of an uninterpreted sort."""

    _pyvc_symbolic = True

    def __init__(self, t, env=None):
        self.t = t
        self.env = env

    def __eq__(self, o):
        if isinstance(o, EVal) and o.t.sort() == self.t.sort():
            return wrap(self.t == o.t)
        return False

    def __ne__(self, o):
        r = self.__eq__(o)
        return ~r if isinstance(r, SBool) else (not r)

    def __hash__(self):
        raise Unsupported("symbolic element used as a hash key outside a symbolic set/dict")

    def __repr__(self):
        return f"<{type(self).__name__} {self.t}>"


class InpVal(EVal):
    pass


class FutVal(EVal):
    """An asyncio future: outcome predicates are environment oracles (monotone: a done future stays done)."""

    def _pyvc_getattr(self, interp, name):
        env = self.env
        if name == "exception":
            return lambda: ExcOf(self)
        if name == "done":
            return lambda: wrap(env.done(self.t))
        if name == "result":
            def result():
                interp.ctx.effect("future.result", self)
                if env.return_stats:
                    return (ResultOf(self), {})
                return ResultOf(self)
            return result
        if name == "cancel":
            def cancel():
                env.cancelled = env.store_set(env.cancelled, self.t, True)
                interp.ctx.effect("future.cancel", self)
                return True
            return cancel
        raise PyExc(AttributeError, (name,))


class ResultOf:
    def __init__(self, fut):
        self.fut = fut


class ExcOf:
    """task.exception(): None iff the future did not fail."""

    _pyvc_symbolic = True

    def __init__(self, fut):
        self.fut = fut

    def _pyvc_truth(self, interp):
        return interp.truth(wrap(self.fut.env.failed(self.fut.t)))

    def _pyvc_as_exception(self, interp, where):
        e = PyExc(TaskFailure, ("task failed",), where=where)
        e.fut = self.fut
        return e


class TaskFailure(Exception):
    """The exception stored in a failed future (what the user's task raised)."""


def _fresh_arr(ctx, base, dom, rng):
    ctx.fresh_n += 1
    return z3.Const(f"{base}!{ctx.fresh_n}", z3.ArraySort(dom, rng))


def _var(sort, ctx, base="x"):
    ctx.fresh_n += 1
    return z3.Const(f"{base}!{ctx.fresh_n}", sort)


class SymSet:
    _pyvc_symbolic = True
    _pyvc_symlen = True

    def __init__(self, arr, env, sort=FUT):
        self.arr = arr
        self.env = env
        self.sort = sort

    def concrete_len(self):
        return False

    def _wrapel(self, t):
        return FutVal(t, self.env) if self.sort == FUT else InpVal(t, self.env)

    def _pyvc_contains(self, interp, x):
        if not isinstance(x, EVal):
            return False
        return wrap(z3.Select(self.arr, x.t))

    def _pyvc_truth(self, interp):
        x = z3.Const("x_ne", self.sort)
        return interp.truth(wrap(z3.Exists([x], z3.Select(self.arr, x))))

    def _pyvc_len(self, interp):
        # cardinality is abstract except for: card == 0 iff the set is empty
        n = interp.ctx.fresh_int("card", lo=0)
        x = z3.Const("x_card", self.sort)
        interp.ctx.assume((n.t == 0) == z3.Not(z3.Exists([x], z3.Select(self.arr, x))))
        return n

    def _pyvc_toset(self, interp):
        return SymSet(self.arr, self.env, self.sort)

    def _pyvc_copy(self, interp):
        return SymSet(self.arr, self.env, self.sort)

    def _pyvc_getattr(self, interp, name):
        ctx = interp.ctx
        if name == "add":
            def add(x):
                self.arr = z3.Store(self.arr, x.t, True)
            return add
        if name == "remove":
            def remove(x):
                if not interp.truth(wrap(z3.Select(self.arr, x.t))):
                    raise PyExc(KeyError, ("<future>",))
                self.arr = z3.Store(self.arr, x.t, False)
            return remove
        if name == "discard":
            def discard(x):
                self.arr = z3.Store(self.arr, x.t, False)
            return discard
        if name == "update":
            def update(other):
                o = as_set_term(other)
                self.arr = self.env.union(ctx, self.arr, o, self.sort)
            return update
        if name == "copy":
            return lambda: SymSet(self.arr, self.env, self.sort)
        raise PyExc(AttributeError, (name,))

    def _pyvc_dictcomp(self, interp, node, fr):
        """{key(x): value(x) for x in S}: evaluated at a generic element; key must be the element itself."""
        from .interp import Frame

        ctx = interp.ctx
        g = node.generators[0]
        if len(node.generators) != 1 or g.ifs:
            raise Unsupported("dict comprehension shape over a symbolic set")
        x = _var(self.sort, ctx, "el")
        cfr = Frame(fr.module, parent=fr, func=fr.func, qual=fr.qual)
        interp.assign(g.target, self._wrapel(x), cfr)
        k = interp.eval(node.key, cfr)
        v = interp.eval(node.value, cfr)
        if not (isinstance(k, EVal) and k.t.eq(x)):
            raise Unsupported("dict comprehension whose key is not the iterated element")
        return self.env.dict_from(ctx, self.arr, x, v)


class PairList:
    """create_futures_func(...): a list of (input, future) pairs over a fresh set of futures."""

    _pyvc_symbolic = True
    _pyvc_symlen = True

    def __init__(self, newset, env):
        self.newset = newset
        self.env = env

    def concrete_len(self):
        return False

    def _pyvc_dictcomp(self, interp, node, fr):
        from .interp import Frame

        ctx = interp.ctx
        g = node.generators[0]
        x = _var(FUT, ctx, "el")
        cfr = Frame(fr.module, parent=fr, func=fr.func, qual=fr.qual)
        interp.assign(g.target, (InpVal(self.env.input_of(x), self.env), FutVal(x, self.env)), cfr)
        k = interp.eval(node.key, cfr)
        v = interp.eval(node.value, cfr)
        if not (isinstance(k, EVal) and k.t.eq(x)):
            raise Unsupported("dict comprehension whose key is not the new future")
        return self.env.dict_from(ctx, self.newset, x, v)


def as_set_term(v):
    if isinstance(v, SymSet):
        return v.arr
    if isinstance(v, DictKeys):
        return v.d.dom
    raise Unsupported(f"not a symbolic set: {type(v).__name__}")


class DictKeys:
    _pyvc_symbolic = True
    _pyvc_symlen = True

    def __init__(self, d):
        self.d = d

    def concrete_len(self):
        return False

    def _pyvc_dictcomp(self, interp, node, fr):
        return SymSet(self.d.dom, self.d.env, FUT)._pyvc_dictcomp(interp, node, fr)

    def _pyvc_toset(self, interp):
        return SymSet(self.d.dom, self.d.env, FUT)


class SymDict:
    _pyvc_symbolic = True
    _pyvc_symlen = True

    def __init__(self, dom, val, env, vsort):
        self.dom, self.val, self.env, self.vsort = dom, val, env, vsort

    def concrete_len(self):
        return False

    def _wrapv(self, t):
        if self.vsort == FUT:
            return FutVal(t, self.env)
        if self.vsort == INP:
            return InpVal(t, self.env)
        return wrap(t)

    def _unwrap(self, v):
        if isinstance(v, EVal):
            return v.t
        return tz(v) if self.vsort != z3.RealSort() else z3.ToReal(tz(v)) if not sym._is_real(tz(v)) else tz(v)

    def _pyvc_contains(self, interp, k):
        if not isinstance(k, EVal):
            return False
        return wrap(z3.Select(self.dom, k.t))

    def _pyvc_getitem(self, interp, k):
        if not interp.truth(wrap(z3.Select(self.dom, k.t))):
            raise PyExc(KeyError, ("<future>",))
        return self._wrapv(z3.Select(self.val, k.t))

    def _pyvc_setitem(self, interp, k, v):
        self.dom = z3.Store(self.dom, k.t, True)
        self.val = z3.Store(self.val, k.t, self._unwrap(v))

    def _pyvc_delitem(self, interp, k):
        if not interp.truth(wrap(z3.Select(self.dom, k.t))):
            raise PyExc(KeyError, ("<future>",))
        self.dom = z3.Store(self.dom, k.t, False)

    def _pyvc_truth(self, interp):
        x = z3.Const("x_ne", FUT)
        return interp.truth(wrap(z3.Exists([x], z3.Select(self.dom, x))))

    def _pyvc_len(self, interp):
        return interp.ctx.fresh_int("card", lo=0)

    def _pyvc_getattr(self, interp, name):
        ctx = interp.ctx
        if name == "get":
            def get(k, default=None):
                if interp.truth(wrap(z3.Select(self.dom, k.t))):
                    return self._wrapv(z3.Select(self.val, k.t))
                return default
            return get
        if name == "keys":
            return lambda: DictKeys(self)
        if name == "update":
            def update(other):
                if not isinstance(other, SymDict):
                    raise Unsupported("dict.update with a non-symbolic dict")
                ndom = self.env.union(ctx, self.dom, other.dom, FUT)
                nval = _fresh_arr(ctx, "upd", FUT, self.val.sort().range())
                x = z3.Const("x_u", FUT)
                ctx.assume_def(z3.ForAll([x], z3.Select(nval, x) == z3.If(z3.Select(other.dom, x), z3.Select(other.val, x), z3.Select(self.val, x))))
                self.dom, self.val = ndom, nval
            return update
        raise PyExc(AttributeError, (name,))


class FutEnv:
    """Ghost state and environment oracles of one run of the parallel map."""

    def __init__(self, ctx, return_stats=True):
        self.ctx = ctx
        self.return_stats = return_stats
        self.done = z3.Function("done", FUT, z3.BoolSort())
        self.failed = z3.Function("failed", FUT, z3.BoolSort())
        self.input_of = z3.Function("input_of", FUT, INP)
        self.is_backup = z3.Function("is_backup", FUT, z3.BoolSort())
        self.empty_f = z3.K(FUT, z3.BoolVal(False))
        self.empty_i = z3.K(INP, z3.BoolVal(False))
        self.created = self.empty_f
        self.cancelled = self.empty_f
        self.yielded = self.empty_i  # inputs delivered
        self.drawn = self.empty_i  # inputs taken from the input iterable so far
        self.backed = self.empty_i  # inputs that got a backup submission
        self.exhausted = False  # all batches drawn
        x = z3.Const("x_env", FUT)
        ctx.assume_def(z3.ForAll([x], z3.Implies(self.failed(x), self.done(x))))
        ctx.finite_sorts = [FUT, INP]

    def store_set(self, arr, el, val):
        return z3.Store(arr, el, val)

    def union(self, ctx, a, b, sort):
        u = _fresh_arr(ctx, "union", sort, z3.BoolSort())
        x = z3.Const("x_un", sort)
        ctx.assume_def(z3.ForAll([x], z3.Select(u, x) == z3.Or(z3.Select(a, x), z3.Select(b, x))))
        return u

    def dict_from(self, ctx, dom, x, v):
        """{x: v(x) for x in dom}"""
        if isinstance(v, EVal):
            vs, vt = v.t.sort(), v.t
        else:
            vt = tz(v)
            vs = vt.sort()
        val = _fresh_arr(ctx, "dval", FUT, vs)
        ctx.assume_def(z3.ForAll([x], z3.Implies(z3.Select(dom, x), z3.Select(val, x) == vt)))
        return SymDict(dom, val, self, vs)

    def fresh_set(self, base, sort=FUT):
        return _fresh_arr(self.ctx, base, sort, z3.BoolSort())
