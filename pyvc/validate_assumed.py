"""Bounded differential validation of the *assumed* contracts (the trusted base besides the tool): the NumPy kernel
contracts of pyvc/arrays.py (_NXP), the normalize_chunks contract and the zarr OrthogonalIndexer contract are evaluated
on concrete random inputs and compared with the real NumPy / cubed / zarr.

This is a test of the assumptions, labelled *bounded* in the evidence (coverage.assumed_contract_checks) and never
counted among the discharged obligations.  A disagreement means an assumed contract is wrong: the check reports itself
broken (exit 3), not a violation of the property.

Runs under python3-vt (NumPy from the tooling venv for the kernels); ground truth that needs cubed/zarr is computed by a
/venv/bin/python subprocess."""
from __future__ import annotations

import itertools
import json
import os
import random
import subprocess

import numpy as np

from . import sym
from .sym import PathCtx, tz

NATIVE_PY = "/venv/bin/python"


def _ctx():
    from .interp import Interp

    ctx = PathCtx([], timeout_ms=5000, max_decisions=200000)
    sym.set_cur(ctx)
    it = Interp(ctx)
    return ctx, it


def _conc(ctx, v):
    """concrete value of a (possibly symbolic, but determined) integer"""
    if isinstance(v, (int, float)):
        return v
    import z3

    t = tz(v)
    s = z3.simplify(t)
    if z3.is_int_value(s):
        return s.as_long()
    r, m = ctx._check()
    if m is None:
        raise RuntimeError("no model")
    val = m.eval(t, model_completion=True)
    if not ctx.entails(t == val):
        raise RuntimeError(f"value of {t} is not determined")
    return val.as_long() if z3.is_int_value(val) else float(val.as_fraction())


def _block_matches(ctx, blk, src_arrays, want):
    """blk: SymBlock from a kernel contract; want: numpy array.  -> None | disagreement text"""
    shp = tuple(_conc(ctx, s) for s in blk.shape)
    if shp != tuple(want.shape):
        return f"shape {shp} != numpy {tuple(want.shape)}"
    if blk.origin is None:
        return None
    for loc in itertools.product(*[range(n) for n in shp]):
        nm, idx = blk.origin(loc)
        idx = tuple(_conc(ctx, i) for i in idx)
        if nm == "<value>":
            got = idx[0]
            if not np.isclose(float(got), float(want[loc]), rtol=1e-12, atol=1e-12):
                return f"value at {loc}: {got} != numpy {want[loc]}"
        else:
            if src_arrays[nm][idx] != want[loc]:
                return f"element {loc} comes from {nm}{idx} = {src_arrays[nm][idx]}, numpy has {want[loc]}"
    return None


def _mk(name, shape, offset=0):
    from .arrays import Dtype, SymBlock

    a = (np.arange(int(np.prod(shape)) if shape else 1) + offset).reshape(shape)
    return a, SymBlock(tuple(shape), Dtype("int64", 8), (lambda loc, name=name: (name, tuple(loc))), name)


def kernel_cases(rng, n):
    """-> list of (kernel label, thunk) ; thunk() -> disagreement text | None"""
    from .arrays import NXP

    out = []

    def shape(nd, lo=1, hi=4):
        return tuple(rng.randint(lo, hi) for _ in range(nd))

    for _ in range(n):
        nd = rng.randint(1, 3)
        shp = shape(nd)
        ax = rng.randrange(nd)
        r = rng.randint(0, 3)

        def t_repeat(shp=shp, ax=ax, r=r):
            ctx, it = _ctx()
            a, b = _mk("a", shp)
            return _block_matches(ctx, NXP.repeat(b, r, axis=ax), {"a": a}, np.repeat(a, r, axis=ax))

        out.append(("repeat", t_repeat))
        ax2 = rng.randint(0, nd)

        def t_expand(shp=shp, ax2=ax2):
            ctx, it = _ctx()
            a, b = _mk("a", shp)
            return _block_matches(ctx, NXP.expand_dims(b, axis=ax2), {"a": a}, np.expand_dims(a, ax2))

        out.append(("expand_dims", t_expand))
        perm = list(range(nd))
        rng.shuffle(perm)

        def t_perm(shp=shp, perm=tuple(perm)):
            ctx, it = _ctx()
            a, b = _mk("a", shp)
            return _block_matches(ctx, NXP.permute_dims(b, perm), {"a": a}, np.transpose(a, perm))

        out.append(("permute_dims", t_perm))
        shp1 = tuple(1 if i == ax else s for i, s in enumerate(shp))

        def t_squeeze(shp1=shp1, ax=ax):
            ctx, it = _ctx()
            a, b = _mk("a", shp1)
            return _block_matches(ctx, NXP.squeeze(b, axis=ax), {"a": a}, np.squeeze(a, axis=ax))

        out.append(("squeeze", t_squeeze))
        k = rng.randint(1, 3)
        shapes = [tuple(rng.randint(1, 3) if i == ax else s for i, s in enumerate(shp)) for _ in range(k)]

        def t_concat(shapes=shapes, ax=ax):
            ctx, it = _ctx()
            pairs = [_mk(f"a{j}", s, 100 * j) for j, s in enumerate(shapes)]
            src = {f"a{j}": p[0] for j, p in enumerate(pairs)}
            return _block_matches(ctx, NXP.concat([p[1] for p in pairs], axis=ax), src, np.concatenate([p[0] for p in pairs], axis=ax))

        out.append(("concat", t_concat))

        def t_flip(shp=shp, ax=ax):
            ctx, it = _ctx()
            a, b = _mk("a", shp)
            return _block_matches(ctx, NXP.flip(b, axis=ax), {"a": a}, np.flip(a, axis=ax))

        out.append(("flip", t_flip))
        lead = shape(rng.randint(0, 2))

        def t_bcast(shp=shp, lead=lead, ax=ax):
            ctx, it = _ctx()
            src_shape = tuple(1 if i == ax else s for i, s in enumerate(shp))
            a, b = _mk("a", src_shape)
            tgt = tuple(lead) + tuple(shp)
            return _block_matches(ctx, NXP.broadcast_to(b, tgt), {"a": a}, np.broadcast_to(a, tgt))

        out.append(("broadcast_to", t_bcast))

        def t_getitem(shp=shp):
            ctx, it = _ctx()
            a, b = _mk("a", shp)
            idx = []
            for s in shp:
                lo = rng.randint(0, s)
                hi = rng.randint(lo, s)
                idx.append(slice(lo, hi) if rng.random() < 0.7 else slice(None))
            idx = tuple(idx)
            return _block_matches(ctx, b._pyvc_getitem(it, idx), {"a": a}, a[idx])

        out.append(("basic slicing", t_getitem))
        start, stop = rng.randint(-6, 6), rng.randint(-6, 6)
        step = rng.choice([1, 2, 3, -1, -2])

        def t_arange(start=start, stop=stop, step=step):
            ctx, it = _ctx()
            return _block_matches(ctx, NXP.arange(start, stop, step), {}, np.arange(start, stop, step))

        out.append(("arange", t_arange))
        num = rng.randint(1, 6)
        ep = rng.random() < 0.5

        def t_linspace(start=start, stop=stop, num=num, ep=ep):
            ctx, it = _ctx()
            return _block_matches(ctx, NXP.linspace(float(start), float(stop), num, endpoint=ep), {}, np.linspace(start, stop, num, endpoint=ep))

        out.append(("linspace", t_linspace))
        nr, nc, kk = rng.randint(1, 4), rng.randint(1, 4), rng.randint(-3, 3)

        def t_eye(nr=nr, nc=nc, kk=kk):
            ctx, it = _ctx()
            return _block_matches(ctx, NXP.eye(nr, nc, k=kk), {}, np.eye(nr, nc, k=kk))

        out.append(("eye", t_eye))
        s1 = shape(rng.randint(0, 3))
        s2 = tuple((x if rng.random() < 0.6 else 1) for x in s1[rng.randint(0, len(s1)):])

        def t_bshapes(s1=s1, s2=s2):
            ctx, it = _ctx()
            got = tuple(_conc(ctx, x) for x in NXP.broadcast_shapes(s1, s2))
            want = tuple(np.broadcast_shapes(s1, s2))
            return None if got == want else f"broadcast_shapes{(s1, s2)} = {got}, numpy {want}"

        out.append(("broadcast_shapes", t_bshapes))
    return out


_NATIVE = r'''
import json, sys
import numpy as np
from cubed.utils import normalize_chunks as _unused  # noqa: F401  (import check)
from cubed.vendor.dask.array.core import normalize_chunks
from zarr.core.chunk_grids import ChunkGrid
from zarr.core.indexing import OrthogonalIndexer
cases = json.loads(sys.stdin.read())
out = {"normalize_chunks": [], "indexer": []}
for shape, chunks in cases["normalize_chunks"]:
    try:
        out["normalize_chunks"].append([list(map(int, c)) for c in normalize_chunks(tuple(chunks), shape=tuple(shape), dtype=np.dtype("f8"))])
    except Exception as e:
        out["normalize_chunks"].append("ERR:" + type(e).__name__)
for shape, chunks, sel in cases["indexer"]:
    sl = tuple(slice(*x) if len(x) == 2 else x[0] for x in sel)
    grid = ChunkGrid.from_sizes(array_shape=tuple(shape), chunk_sizes=tuple(chunks))
    ix = OrthogonalIndexer(sl, tuple(shape), grid)
    rows = []
    for cp in ix:
        rows.append([list(map(int, cp.chunk_coords)), [[int(s.start), int(s.stop)] if isinstance(s, slice) else int(s) for s in cp.chunk_selection],
                     [[int(s.start), int(s.stop)] for s in cp.out_selection]])
    out["indexer"].append({"shape": list(map(int, ix.shape)), "rows": rows})
print("@@" + json.dumps(out))
'''


def storage_cases(rng, n, repo):
    from .arrays import normalize_chunks_contract
    from .zarridx import SymIndexer

    nc_cases, ix_cases = [], []
    for _ in range(n):
        nd = rng.randint(1, 3)
        shape = [rng.randint(1, 9) for _ in range(nd)]
        chunks = [rng.randint(1, s + 1) for s in shape]
        nc_cases.append((shape, chunks))
        sel = []
        for s in shape:
            if rng.random() < 0.25:
                sel.append([rng.randint(0, s - 1)])  # integer selection: the axis is dropped
                continue
            a = rng.randint(0, s)
            b = rng.randint(a, s)
            sel.append([a, b])
        ix_cases.append((shape, [min(c, s) for c, s in zip(chunks, shape)], sel))
    p = subprocess.run([NATIVE_PY, "-c", _NATIVE], input=json.dumps({"normalize_chunks": nc_cases, "indexer": ix_cases}),
                       capture_output=True, text=True, timeout=300, cwd="/tmp", env=dict(os.environ, PYTHONPATH=repo))
    truth = None
    for line in p.stdout.splitlines():
        if line.startswith("@@"):
            truth = json.loads(line[2:])
    if truth is None:
        return [("native ground truth", lambda: f"native helper failed: {p.stderr[-400:]}")]
    out = []
    for (shape, chunks), want in zip(nc_cases, truth["normalize_chunks"]):
        def t_nc(shape=shape, chunks=chunks, want=want):
            ctx, it = _ctx()
            if isinstance(want, str):
                return None  # the real function raises: outside the contract's domain
            grids = normalize_chunks_contract(it, tuple(chunks), tuple(shape))
            got = []
            for g in grids:
                nb = _conc(ctx, g.length())
                got.append([_conc(ctx, g.get(it, k)) for k in range(nb)])
            return None if got == want else f"normalize_chunks({chunks}, shape={shape}) contract {got} != real {want}"

        out.append(("normalize_chunks", t_nc))
    for (shape, chunks, sel), want in zip(ix_cases, truth["indexer"]):
        def t_ix(shape=shape, chunks=chunks, sel=sel, want=want):
            ctx, it = _ctx()
            ix = SymIndexer(it, tuple(slice(*x) if len(x) == 2 else x[0] for x in sel), tuple(shape), tuple(chunks))
            got_shape = [_conc(ctx, s) for s in ix.shape]
            if got_shape != want["shape"]:
                return f"indexer shape {got_shape} != zarr {want['shape']} for {shape, chunks, sel}"
            n = _conc(ctx, ix.length())
            if n != len(want["rows"]):
                return f"indexer yields {n} projections, zarr {len(want['rows'])} for {shape, chunks, sel}"
            # the contract's k-th projection is a generic element per axis; compare as sets of projections
            ms = [_conc(ctx, ax.m) for ax in ix.axes]
            rows = []
            for js in itertools.product(*[range(m) for m in ms]):
                coords, cs, os_ = [], [], []
                for ax, j in zip(ix.axes, js):
                    q, c_, o_ = ax.proj(it, j)
                    coords.append(_conc(ctx, q))
                    cs.append([_conc(ctx, c_.start), _conc(ctx, c_.stop)] if isinstance(c_, slice) else _conc(ctx, c_))
                    if o_ is not None:
                        os_.append([_conc(ctx, o_.start), _conc(ctx, o_.stop)])
                rows.append([coords, cs, os_])
            return None if rows == want["rows"] else f"indexer projections {rows} != zarr {want['rows']} for {shape, chunks, sel}"

        out.append(("zarr OrthogonalIndexer", t_ix))
    return out


def run(seed=0, n=20, repo="/repo"):
    """-> dict for evidence: per assumed contract the number of concrete cases compared and the disagreements"""
    rng = random.Random(seed)
    table = {}
    for label, thunk in kernel_cases(rng, n) + storage_cases(rng, n, repo):
        row = table.setdefault(label, dict(cases=0, disagreements=[]))
        row["cases"] += 1
        try:
            d = thunk()
        except Exception as e:  # noqa: BLE001
            d = f"validator error: {type(e).__name__}: {e}"
        finally:
            sym.set_cur(None)
        if d:
            row["disagreements"].append(str(d)[:300])
    return table


if __name__ == "__main__":
    import sys

    t = run(int(sys.argv[1]) if len(sys.argv) > 1 else 0, int(sys.argv[2]) if len(sys.argv) > 2 else 20)
    bad = {k: v for k, v in t.items() if v["disagreements"]}
    print(json.dumps({k: v["cases"] for k, v in t.items()}))
    for k, v in bad.items():
        print("DISAGREEMENT", k, v["disagreements"][:3])
    sys.exit(3 if bad else 0)
