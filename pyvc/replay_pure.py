"""Generic native replay for contracts on *pure functions of plain values* (ints, tuples/lists of ints, None, bools,
BufferCopies): the verifier's counterexample is turned into concrete arguments by re-running the contract's own `setup`
with every named symbolic input fixed to its model value; the **real** function is then called under CPython
(/venv/bin/python) on those arguments, and the contract's postcondition (or its exception clause) is evaluated on the
real result.  reproduced == the failed clause is false on the real result."""
from __future__ import annotations

import json
import os
import subprocess

import z3

from . import sym
from .sym import PathCtx, PyExc, tb

NATIVE_PY = os.environ.get("PYVC_NATIVE_PY", "/venv/bin/python")

_NATIVE = r'''
import importlib, json, sys
spec = json.loads(sys.stdin.read())
def dec(v):
    if isinstance(v, dict) and "__tuple__" in v:
        return tuple(dec(x) for x in v["__tuple__"])
    if isinstance(v, dict) and "__BufferCopies__" in v:
        from cubed.primitive.memory import BufferCopies
        return BufferCopies(*v["__BufferCopies__"])
    if isinstance(v, list):
        return [dec(x) for x in v]
    if isinstance(v, dict):
        return {k: dec(x) for k, x in v.items()}
    return v
def enc(v):
    if isinstance(v, tuple):
        return {"__tuple__": [enc(x) for x in v]}
    if isinstance(v, list):
        return [enc(x) for x in v]
    if isinstance(v, bool) or v is None or isinstance(v, (int, float, str)):
        return v
    if isinstance(v, dict):
        return {str(k): enc(x) for k, x in v.items()}
    if hasattr(v, "__next__") or hasattr(v, "__iter__"):
        return [enc(x) for x in v]
    try:
        return int(v)
    except Exception:
        return repr(v)
mod, _, qual = spec["target"].partition(":")
f = importlib.import_module(mod)
for part in qual.split("."):
    f = getattr(f, part)
try:
    r = f(*dec(spec["args"]), **dec(spec["kwargs"]))
    print("@@" + json.dumps({"ok": enc(r)}))
except Exception as e:
    print("@@" + json.dumps({"exc": type(e).__name__, "msg": str(e)[:300]}))
'''


class _Cannot(Exception):
    pass


def _enc(it, v):
    from .interp import IObj

    if isinstance(v, tuple):
        return {"__tuple__": [_enc(it, x) for x in v]}
    if isinstance(v, list):
        return [_enc(it, x) for x in v]
    if isinstance(v, bool) or v is None or isinstance(v, (int, float, str)):
        return v
    if isinstance(v, (sym.SInt, sym.SBool, sym.SReal)):
        s = z3.simplify(v.t)
        if z3.is_int_value(s):
            return s.as_long()
        if z3.is_true(s) or z3.is_false(s):
            return z3.is_true(s)
        if z3.is_rational_value(s):
            return float(s.as_fraction())
        raise _Cannot(f"symbolic argument {s}")
    if isinstance(v, IObj) and v.cls.name == "BufferCopies":
        return {"__BufferCopies__": [_enc(it, v.attrs["read"]), _enc(it, v.attrs["write"])]}
    if isinstance(v, dict):
        return {str(k): _enc(it, x) for k, x in v.items()}
    raise _Cannot(f"argument of type {type(v).__name__}")


def _dec(v):
    if isinstance(v, dict) and "__tuple__" in v:
        return tuple(_dec(x) for x in v["__tuple__"])
    if isinstance(v, list):
        return [_dec(x) for x in v]
    if isinstance(v, dict):
        return {k: _dec(x) for k, x in v.items()}
    return v


def concrete_replay(spec, cfg, model, ob, repo):
    """-> None (not applicable) | (reproduced: bool|None, detail: str, arguments-as-json)"""
    from .interp import Interp
    from .spec import Case

    model = {k: v for k, v in (model or {}).items() if isinstance(v, (int, bool, float))}
    ctx = PathCtx([], timeout_ms=5000, max_decisions=100000)
    sym.set_cur(ctx)
    try:
        it = Interp(ctx)
        c = Case(ctx, it, dict(cfg, _tier="quick"))
        ctx.case = c

        def fixed_int(name, lo=None, hi=None, c=c):
            v = ctx.named_int(name, lo, hi)
            c.inputs[name] = v
            if name in model:
                ctx.assume(v == int(model[name]))
                return sym.wrap(z3.IntVal(int(model[name])))
            return v

        def fixed_bool(name, c=c):
            v = ctx.named_bool(name)
            c.inputs[name] = v
            if name in model:
                return bool(model[name])
            return v

        c.int, c.bool = fixed_int, fixed_bool
        c.ints = lambda name, n, lo=None, hi=None: tuple(fixed_int(f"{name}{i}", lo, hi) for i in range(n))
        try:
            spec.install(c)
            args, kwargs = spec.setup(c)
            payload = dict(target=spec.target, args=_enc(it, list(args)), kwargs=_enc(it, dict(kwargs)))
        except (_Cannot, sym.Unsupported, PyExc, sym.PathInfeasible) as e:
            return None
        p = subprocess.run([NATIVE_PY, "-c", _NATIVE], input=json.dumps(payload), capture_output=True, text=True, timeout=300,
                           cwd="/tmp", env=dict(os.environ, PYTHONPATH=repo))
        out = None
        for line in p.stdout.splitlines():
            if line.startswith("@@"):
                out = json.loads(line[2:])
        if out is None:
            return None, f"native call produced no result: {p.stderr[-300:]}", payload
        c._args, c._kwargs = args, kwargs
        if "exc" in out:
            etype = getattr(__import__("builtins"), out["exc"], None)
            e = PyExc(etype if isinstance(etype, type) else Exception, (out.get("msg", ""),))
            allowed = spec.raises(c, args, kwargs, e)
            if isinstance(allowed, tuple):
                allowed = allowed[1]
            ok = False if allowed is None else (allowed if isinstance(allowed, bool) else ctx.entails(tb(allowed)))
            return (not ok), f"real function raised {out['exc']}: {out.get('msg', '')[:120]} on {json.dumps(payload['args'])[:200]}" + ("" if not ok else " — as the contract allows"), payload
        res = _dec(out["ok"])
        failed = []
        try:
            for name, term in spec.ensures(c, args, kwargs, res) or []:
                t = tb(term)
                good = z3.is_true(z3.simplify(t)) or ctx.entails(t)
                if not good:
                    failed.append(name)
        except Exception as e:  # noqa: BLE001
            return None, f"postcondition could not be evaluated on the real result: {type(e).__name__}: {e}", payload
        want = ob.get("name")
        if want in failed or (failed and want not in [n for n in failed]):
            pass
        rep = bool(failed)
        return rep, (f"real result {json.dumps(out['ok'])[:200]} for arguments {json.dumps(payload['args'])[:200]} violates: {failed[:4]}" if rep
                     else f"real result {json.dumps(out['ok'])[:160]} satisfies the postcondition for {json.dumps(payload['args'])[:160]}"), payload
    finally:
        sym.set_cur(None)
