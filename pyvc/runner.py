"""Check driver: runs every contract of a property, aggregates obligations, writes evidence,
replays counterexamples on the real code, prints VIOLATION / KNOWN-FINDING lines.

Exit codes: 0 held · 1 violation (+replay) · 2 undecided · 3 checker broken.
"""
from __future__ import annotations

import argparse
import hashlib
import importlib
import json
import multiprocessing as mp
import os
import pkgutil
import subprocess
import sys
import time

VERIF = os.path.dirname(os.path.dirname(os.path.abspath(__file__)))
REPO = os.environ.get("PYVC_REPO", "/repo")
NATIVE_PY = os.environ.get("PYVC_NATIVE_PY", "/venv/bin/python")


def load_contracts():
    import contracts

    for m in pkgutil.iter_modules(contracts.__path__):
        importlib.import_module(f"contracts.{m.name}")
    from pyvc.spec import REGISTRY

    return REGISTRY


def tree_hash():
    """content hash of everything a result depends on: /repo's python sources (the tree under test), the engine, the
    contracts and the known-findings file"""
    import hashlib

    h = hashlib.sha256()
    roots = [os.path.join(REPO, "cubed"), os.path.join(VERIF, "pyvc"), os.path.join(VERIF, "contracts")]
    for root in roots:
        for dp, dn, fns in sorted(os.walk(root)):
            dn.sort()
            if "__pycache__" in dp or os.sep + "tests" in dp:
                continue
            for f in sorted(fns):
                if f.endswith(".py"):
                    p = os.path.join(dp, f)
                    h.update(p.encode())
                    with open(p, "rb") as fh:
                        h.update(fh.read())
    for k in ("PYVC_METER", "VERIF_SEED"):
        h.update(f"{k}={os.environ.get(k, '')}".encode())
    return h.hexdigest()


def _cache_path(name, cfg, tier, exclude):
    import hashlib

    th = os.environ.get("PYVC_TREEHASH")
    if not th:
        return None
    key = hashlib.sha256(json.dumps([name, cfg, tier, list(exclude), th], sort_keys=True, default=str).encode()).hexdigest()
    return os.path.join(VERIF, ".cache", key + ".json")


def _job(args):
    name, cfg, tier = args[:3]
    exclude = args[3] if len(args) > 3 else ()
    load_contracts()
    from pyvc.spec import REGISTRY, verify

    spec = REGISTRY[name]
    t0 = time.time()
    # results of the slow thorough tier are shared between the properties a contract serves (same tree, same engine,
    # same contracts: the key is a content hash of all three); only fully decided results are stored
    cp = _cache_path(name, cfg, tier, exclude)
    if cp and os.path.exists(cp):
        try:
            with open(cp) as f:
                d = json.load(f)
            d["cached"] = True
            return d
        except Exception:  # noqa: BLE001
            pass
    try:
        if hasattr(spec, "analyze"):
            d = spec.analyze(cfg, tier)
        else:
            r = verify(spec, cfg, tier, exclude=exclude)
            d = r.as_dict()
        if cp and not d.get("errors") and not d.get("undecided") and all(o["result"] in ("discharged", "failed") for o in d["obligations"]) \
                and all(v is not None for v in (d.get("canaries") or {}).values()):
            try:
                os.makedirs(os.path.dirname(cp), exist_ok=True)
                tmp = cp + f".{os.getpid()}.tmp"
                with open(tmp, "w") as f:
                    json.dump(d, f, default=str)
                os.replace(tmp, cp)
            except Exception:  # noqa: BLE001
                pass
    except Exception as e:  # noqa: BLE001
        import traceback

        d = dict(spec=name, target=spec.target, cfg=cfg, paths=0, infeasible=0, undecided=[], assumptions=[],
                 canaries={}, cover=None, scoped_paths=0, wall_s=time.time() - t0, solver_s=0.0,
                 errors=[traceback.format_exc()[-2000:]], outcomes={}, obligations=[])
    return d


def known_findings():
    path = os.path.join(VERIF, "KNOWN_FINDINGS.txt")
    out = []
    if os.path.exists(path):
        for line in open(path):
            line = line.strip()
            if not line or line.startswith("#"):
                continue
            kind, _, rest = line.partition(":")
            head, _, text = rest.partition("::")
            fields = {}
            for t in head.strip().split(" "):
                if "=" in t:
                    k, _, v = t.partition("=")
                    fields[k] = v
            fields["properties"] = fields.get("property", "").split(",")
            out.append(dict(kind=kind.strip(), text=text.strip(), **fields))
    return out


def run_replay(spec, cfg, ob, prop, idx):
    """Materialise the solver's counterexample and run it against the real code under /venv."""
    os.makedirs(os.path.join(VERIF, "replay", prop), exist_ok=True)
    fail = ob.get("failure") or {}
    model = fail.get("model") or {}
    safe = "".join(ch if ch.isalnum() or ch in "-_." else "_" for ch in f"{spec.name.split(':')[-1]}.{ob['name']}")[:120]
    path = os.path.join(VERIF, "replay", prop, f"{safe}.{idx}.json")
    code = None
    try:
        code = spec.replay(cfg, model, ob)
    except Exception as e:  # noqa: BLE001
        code = None
        fail = dict(fail, replay_builder_error=repr(e))
    rec = dict(property=prop, function=spec.target, contract=spec.name, obligation=ob["name"], kind=ob["kind"],
               cfg=cfg, verifier_model=model, verifier_output=dict(result=ob["result"], backend=ob["backend"],
                                                                   where=ob.get("where"), detail=fail.get("detail"),
                                                                   path_decisions=fail.get("path")),
               native_code=code, native=None,
               rerun=f"cd {VERIF} && ./check {prop} --replay {os.path.relpath(path, VERIF)}")
    reproduced = None
    if code:
        reproduced, detail = exec_native(code)
        rec["native"] = dict(reproduced=reproduced, detail=detail)
    elif getattr(spec, "pure_replay", False):
        # contracts on pure functions of plain values: the model's arguments through the real function under CPython,
        # the contract's clauses evaluated on the real result (pyvc/replay_pure.py)
        try:
            from pyvc.replay_pure import concrete_replay

            out = concrete_replay(spec, cfg, model, ob, REPO)
        except Exception as e:  # noqa: BLE001
            out = None
            rec["replay_builder_error"] = repr(e)
        if out is not None:
            reproduced, detail, payload = out
            rec["native_call"] = payload
            rec["native"] = dict(reproduced=reproduced, detail=detail)
    with open(path, "w") as f:
        json.dump(rec, f, indent=1, default=str)
    return path, reproduced


def exec_native(code):
    prog = (
        "import sys, json, warnings\nwarnings.simplefilter('ignore')\nsys.path.insert(0, %r)\n" % REPO
        + "reproduced, detail = None, ''\n"
        + code
        + "\nprint('@@RESULT@@' + json.dumps({'reproduced': bool(reproduced), 'detail': str(detail)[:2000]}))\n"
    )
    try:
        p = subprocess.run([NATIVE_PY, "-c", prog], capture_output=True, text=True, timeout=600,
                           cwd="/tmp", env=dict(os.environ, PYTHONPATH=REPO, PYTHONDONTWRITEBYTECODE="1"))
        for line in p.stdout.splitlines():
            if line.startswith("@@RESULT@@"):
                d = json.loads(line[len("@@RESULT@@"):])
                return d["reproduced"], d["detail"]
        return None, f"replay harness produced no verdict: rc={p.returncode} stderr={p.stderr[-1500:]}"
    except subprocess.TimeoutExpired:
        return None, "replay timed out"


def main(argv=None):
    ap = argparse.ArgumentParser()
    ap.add_argument("prop")
    ap.add_argument("--tier", default=os.environ.get("VERIF_TIER", "quick"))
    ap.add_argument("--replay", default=None)
    ap.add_argument("--only", default=None, help="substring filter on contract names (debugging)")
    ap.add_argument("--jobs", type=int, default=int(os.environ.get("PYVC_JOBS", "16")))
    ap.add_argument("--no-evidence", action="store_true")
    a = ap.parse_args(argv)
    seed = int(os.environ.get("VERIF_SEED", "0") or 0)
    prop = a.prop
    t0 = time.time()

    if a.replay:
        rec = json.load(open(os.path.join(VERIF, a.replay) if not os.path.isabs(a.replay) else a.replay))
        if not rec.get("native_code"):
            print(f"replay: obligation {rec['obligation']} has no concrete input (structural obligation)")
            print(f"VIOLATION property={rec['property']} replay={a.replay} no-failing-input-found")
            return 1
        rep, detail = exec_native(rec["native_code"])
        print(f"replay {rec['obligation']}: reproduced={rep} {detail}")
        if rep:
            print(f"VIOLATION property={rec['property']} replay={a.replay}")
            return 1
        return 0

    import shutil

    shutil.rmtree(os.path.join(VERIF, "replay", prop), ignore_errors=True)
    REG = load_contracts()
    def _serves(sp):
        # a contract may serve fewer properties in the quick tier (quick_props) so that the per-change checks do not
        # all repeat the same runs; the thorough tier runs every contract for every property it supports
        ps = getattr(sp, "quick_props", None) if a.tier == "quick" else None
        return prop in (ps if ps is not None else sp.props)

    specs = [s for s in REG.values() if _serves(s) and (a.only is None or a.only in s.name)]
    if not specs:
        print(f"checker broken: no contracts registered for {prop}")
        return 3
    if (a.tier == "thorough" or os.environ.get("PYVC_CACHE")) and not os.environ.get("PYVC_NO_CACHE"):
        os.environ["PYVC_TREEHASH"] = tree_hash()
    jobs = []
    for s in specs:
        for cfg in s.configs(a.tier):
            jobs.append((s.name, cfg, a.tier))
    with mp.Pool(min(a.jobs, max(1, len(jobs))), maxtasksperchild=1) as pool:
        results = pool.map(_job, jobs, chunksize=1)

    # ---- aggregate
    n_ob = n_dis = 0
    failed, unknown, broken, undecided = [], [], [], []
    from pyvc.lemmas import prove_schemas

    lemma_rows = prove_schemas()
    for lr in lemma_rows:
        n_ob += 1
        if lr["result"] == "discharged":
            n_dis += 1
        else:
            broken.append(("lemma", {}, f"lemma schema not proved: {lr['name']} -> {lr['result']}"))
    functions = sorted({r["target"] for r in results})
    backends = {}
    solver_s = 0.0
    assumptions = set()
    samples = []
    ob_rows = []
    for r, (name, cfg, _) in zip(results, jobs):
        solver_s += r["solver_s"]
        assumptions |= set(r["assumptions"])
        if r["errors"]:
            broken.append((name, cfg, r["errors"][0]))
        if r["cover"] is False:
            broken.append((name, cfg, "vacuous precondition"))
        for u in r["undecided"]:
            undecided.append((name, cfg, u))
        if not r["obligations"] and not r["errors"] and not r["undecided"]:
            broken.append((name, cfg, "zero obligations generated"))
        for cn, refuted in r["canaries"].items():
            if refuted is None:
                continue  # inconclusive (solver budget): says nothing either way
            n_ob += 1
            if refuted:
                n_dis += 1
            else:
                broken.append((name, cfg, f"canary {cn} was NOT refuted: the contract/engine cannot see a wrong result"))
        only_ob = (getattr(REG[name], "prop_obligations", None) or {}).get(prop)
        for o in r["obligations"]:
            # a contract may contribute only some of its clauses to a property (e.g. the effect clause of an array
            # operation to C16); its other clauses are decided under the properties they belong to
            if only_ob is not None and not any(px in o["name"] for px in only_ob):
                continue
            n_ob += 1
            backends[o["backend"]] = backends.get(o["backend"], 0) + 1
            row = dict(contract=name, cfg=cfg, **{k: o[k] for k in ("name", "kind", "result", "paths", "backend", "solver_s")})
            ob_rows.append(row)
            if o["result"] == "discharged":
                n_dis += 1
                if len(samples) < 6:
                    samples.append(dict(function=r["target"], cfg=cfg, obligation=o["name"], kind=o["kind"],
                                        paths=o["paths"], backend=o["backend"], solver_s=o["solver_s"]))
            elif o["result"] == "failed":
                failed.append((name, cfg, o))
            else:
                unknown.append((name, cfg, o))

    # ---- bounded differential test of the assumed contracts this run relied on (never counted as obligations)
    assumed_checks = None
    if any("assumed" in x for x in assumptions) and not os.environ.get("PYVC_SKIP_ASSUMED"):
        try:
            from pyvc.validate_assumed import run as _validate

            assumed_checks = _validate(seed, 6 if a.tier == "quick" else 60, REPO)
            for label, row in assumed_checks.items():
                if row["disagreements"]:
                    broken.append(("assumed-contract", {}, f"assumed contract `{label}` disagrees with the real library: {row['disagreements'][0]}"))
        except Exception as e:  # noqa: BLE001
            assumed_checks = {"validator": dict(cases=0, disagreements=[], error=repr(e))}

    # ---- CPython cross-check of the interpreter on concrete arguments (bounded; trust in the tool)
    crosscheck = None
    if not os.environ.get("PYVC_SKIP_CROSSCHECK") and any(r["paths"] for r in results):
        try:
            from pyvc.crosscheck import run as _cross

            crosscheck = _cross(seed, 3 if a.tier == "quick" else 40, REPO)
            # the same cases with every integer argument a *symbolic* value pinned by an assumption (symbolic code paths)
            for label, row in _cross(seed, 3 if a.tier == "quick" else 25, REPO, symbolic=True).items():
                crosscheck[label + " [symbolic inputs]"] = row
            for label, row in crosscheck.items():
                if row["disagreements"]:
                    broken.append(("interpreter-crosscheck", {}, f"the interpreter disagrees with CPython on {label}: {row['disagreements'][0]}"))
        except Exception as e:  # noqa: BLE001
            crosscheck = {"crosscheck": dict(cases=0, disagreements=[], error=repr(e))}

    # ---- known findings / violations
    kf = [k for k in known_findings() if prop in k.get("properties", ()) and k["kind"] == "known"]
    violations = []
    known_hit = {}
    idx = 0
    recheck = {}
    unlisted = []
    for name, cfg, o in failed:
        ms = [k for k in kf if k.get("obligation") == o["name"] and k.get("spec") in (None, name)]
        if ms:
            for m_ in ms:
                known_hit[(m_.get("spec"), m_["obligation"], m_.get("class"))] = m_
            key = (name, json.dumps(cfg, sort_keys=True))
            recheck.setdefault(key, (name, cfg, set(), []))
            recheck[key][2].update(m_["class"] for m_ in ms if m_.get("class"))
            recheck[key][3].append(o["name"])
            if any(not m_.get("class") for m_ in ms):
                recheck[key][3].remove(o["name"])  # whole obligation recorded as known (structural finding)
        else:
            unlisted.append((name, cfg, o))
    # a known finding suppresses only its recorded witness class: look for failures outside it
    rjobs = [(name, cfg, a.tier, tuple(sorted(excl))) for (name, cfg, excl, obs) in recheck.values() if obs and excl]
    if rjobs:
        with mp.Pool(min(a.jobs, len(rjobs)), maxtasksperchild=1) as pool:
            rres = pool.map(_job, rjobs, chunksize=1)
        for (name, cfg, _, excl), r in zip(rjobs, rres):
            want = set(recheck[(name, json.dumps(cfg, sort_keys=True))][3])
            if r["errors"] or r["undecided"]:
                undecided.append((name, cfg, f"re-check outside known class {excl}: {(r['errors'] or r['undecided'])[0][:200]}"))
            for o in r["obligations"]:
                if o["name"] in want and o["result"] == "failed":
                    unlisted.append((name, cfg, o))
                elif o["name"] in want and o["result"] == "unknown":
                    unknown.append((name, cfg, o))
    for name, cfg, o in unlisted:
        idx += 1
        if idx > 40:
            violations.append((name, cfg, o, violations[-1][3], None))
            continue
        path, reproduced = run_replay(REG[name], cfg, o, prop, idx)
        violations.append((name, cfg, o, path, reproduced))

    wall = time.time() - t0
    exit_code = 0
    for k in known_hit.values():
        print(f"KNOWN-FINDING: property={prop} {k.get('spec', '')} {k['obligation']} [{k.get('class', 'structural')}]: {k['text']}")
    seen = set()
    for name, cfg, o, path, reproduced in violations:
        rel = os.path.relpath(path, VERIF)
        key = (name, o["name"])
        tail = "" if reproduced else " no-failing-input-found"
        if len(seen) < 12:
            print(f"failed obligation: {name} :: {o['name']} cfg={str(cfg)[:300]} model={(o.get('failure') or {}).get('model')} "
                  f"detail={str((o.get('failure') or {}).get('detail'))[:600]} where={o.get('where')}")
        if key in seen:
            continue
        seen.add(key)
        exit_code = 1
        if len(seen) > 12:
            continue
        print(f"VIOLATION property={prop} replay={rel}{tail}")
    if len(seen) > 12:
        print(f"... and {len(seen) - 12} more failed obligations (see evidence/{prop}.json failed_obligations)")
    if False:
        pass
    if exit_code == 0:
        if broken:
            for b in broken[:10]:
                print(f"CHECKER-BROKEN {b[0]} {b[1]}: {b[2][:600]}")
            exit_code = 3
        elif unknown or undecided:
            # undecided is not a violation and not a pass of what was left open: it is reported (here and in the
            # evidence) and the exit code stays 0 — "held on everything explored"
            for name, cfg, o in unknown[:10]:
                print(f"UNDECIDED {name} {cfg}: {o['name']} ({o['backend']})")
            for u in undecided[:10]:
                print(f"UNDECIDED {u[0]} {u[1]}: {u[2][:300]}")
            if os.environ.get("PYVC_STRICT"):
                exit_code = 2
    else:
        for b in broken[:5]:
            print(f"CHECKER-BROKEN {b[0]} {b[1]}: {b[2][:300]}")

    if os.environ.get("PYVC_TIMING"):
        for r, (name, cfg, _) in sorted(zip(results, jobs), key=lambda x: -x[0]["wall_s"])[:8]:
            print(f"[timing] {r['wall_s']:.1f}s solver={r['solver_s']:.1f}s paths={r['paths']}+{r.get('scoped_paths', 0)} {name} {str(cfg)[:160]}")
    known_obs = sum(1 for name, cfg, o in failed if any(k.get("obligation") == o["name"] for k in kf))
    claimed_ob = n_ob - known_obs
    meta = {}
    for s in specs:
        m = getattr(s, "meta", None)
        if m:
            meta[s.name] = m
    ev = dict(
        property_id=prop, tier=a.tier, seed=seed, level="proof",
        coverage=dict(
            obligations=claimed_ob, discharged=n_dis,
            checker_cmd=f"./check {prop} --tier {a.tier}",
            trusted_base=sorted(assumptions) + sorted({t for s in specs for t in getattr(s, "trusted", ())}),
            functions_under_contract=functions,
            contracts=sorted({s.name for s in specs}),
            backends=backends, solver_s_total=round(solver_s, 3),
            configurations=len(jobs),
            paths_explored=sum(r["paths"] for r in results),
            configurations_from_cache=sum(1 for r in results if r.get("cached")),
            scoped_subpaths_explored=sum(r.get("scoped_paths", 0) for r in results),
            known_finding_obligations=known_obs,
            failed_obligations=[dict(contract=n, cfg=c, obligation=o["name"]) for n, c, o in failed][:40],
            undecided=[dict(contract=n, cfg=c, reason=u[:200]) for n, c, u in undecided][:40],
            bounded_standins=sorted({t for s in specs for t in getattr(s, "bounded", ())}),
            interpreter_crosscheck=dict(
                note="BOUNDED: functions of /repo run on random concrete arguments by the pyvc interpreter and by CPython, "
                     "results compared; a test of the tool, not counted in obligations/discharged",
                table=crosscheck),
            assumed_contract_checks=dict(
                note="BOUNDED differential test of the assumed contracts (NumPy kernels, normalize_chunks, zarr indexer) "
                     "against the real libraries on random concrete inputs; not proof, not counted in obligations/discharged",
                table=assumed_checks),
            not_covered=sorted({t for s in specs for t in getattr(s, "not_covered", ())}),
            samples=samples,
            lemma_schemas=lemma_rows,
            obligation_table=ob_rows if len(ob_rows) <= 400 else ob_rows[:400],
            exhaustive=False,
            explanation="every obligation is generated from the AST of /repo's current working tree by the pyvc "
                        "symbolic interpreter against the sidecar contracts in /verif/contracts and discharged by z3 "
                        "(cvc5 on unknown); all paths of each function are enumerated, sizes are unbounded integers",
        ),
        assumptions=sorted(assumptions) + sorted({t for s in specs for t in getattr(s, "trusted", ())}),
        wall_s=round(wall, 2), violations=len(seen),
    )
    if not a.no_evidence:
        os.makedirs(os.path.join(VERIF, "evidence"), exist_ok=True)
        with open(os.path.join(VERIF, "evidence", f"{prop}.json"), "w") as f:
            json.dump(ev, f, indent=1, default=str)
    print(f"{prop} [{a.tier}] contracts={len(specs)} configs={len(jobs)} obligations={n_ob} discharged={n_dis} "
          f"failed={len(failed)} (known {known_obs}) unknown={len(unknown)} undecided={len(undecided)} "
          f"broken={len(broken)} paths={sum(r['paths'] for r in results)} solver_s={solver_s:.1f} wall_s={wall:.1f} exit={exit_code}")
    return exit_code


if __name__ == "__main__":
    sys.exit(main())
