"""Native replay for C20: an array is built and cloudpickled in a *fresh process* (its own name counters), unpickled in
this process after this process has built (and, for combine=False, computed) arrays whose names collide with it.

combine=False   the deserialized array is computed alone; it must give the values of the original
combine=True    the deserialized array is combined with a locally built array; the result must be the elementwise
                combination of the two (two distinct arrays must not be mistaken for one another)"""
import os
import pickle
import shutil
import subprocess
import sys
import tempfile

CHILD = r'''
import sys, cloudpickle
import numpy as np
import cubed, cubed.array_api as xp
spec = cubed.Spec(work_dir=sys.argv[2], allowed_mem="200MB")
x = xp.asarray(np.array([1.0, 2.0, 3.0, 4.0]), chunks=2, spec=spec)
y = xp.negative(x)          # array-001 (input), array-002.. in a fresh process
with open(sys.argv[1], "wb") as f:
    cloudpickle.dump(y, f)
'''


def run_cross_process_case(combine=False):
    import numpy as np

    import cubed
    import cubed.array_api as xp

    tmp = tempfile.mkdtemp(prefix="pyvc-replay-")
    try:
        pk = os.path.join(tmp, "y.pkl")
        env = dict(os.environ)
        p = subprocess.run([sys.executable, "-c", CHILD, pk, tmp], capture_output=True, text=True, env=env, timeout=300)
        if p.returncode != 0:
            return False, f"child process failed: {p.stderr[-300:]}"
        spec = cubed.Spec(work_dir=tmp, allowed_mem="200MB")
        # the receiving process builds arrays of its own first: their names collide with the incoming ones
        p_ = xp.asarray(np.array([10.0, 20.0, 30.0, 40.0]), chunks=2, spec=spec)
        q = xp.abs(p_)
        if not combine:
            q.compute()
        with open(pk, "rb") as f:
            y = pickle.load(f)
        want_y = np.array([-1.0, -2.0, -3.0, -4.0])
        try:
            if combine:
                got = np.asarray(xp.add(y, q).compute())
                want = want_y + np.array([10.0, 20.0, 30.0, 40.0])
            else:
                got = np.asarray(y.compute())
                want = want_y
        except Exception as e:  # noqa: BLE001
            return True, f"names: local {q.name}, deserialized {y.name}; computing raised {type(e).__name__}: {str(e)[:200]}"
        if got.shape != want.shape or not np.array_equal(got, want):
            return True, f"names: local {q.name}, deserialized {y.name}; got {got.tolist()} want {want.tolist()}"
        return False, f"names: local {q.name}, deserialized {y.name}; values as expected"
    finally:
        shutil.rmtree(tmp, ignore_errors=True)
