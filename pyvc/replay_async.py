"""Native replay harness for the parallel map: drives the *real* cubed.runtime.asyncio.async_map_unordered with
scripted futures on a real event loop.  `should_launch_backup` is scripted (it is a separate function with its own
contract) so that the backup/twin scenarios the verifier's counterexamples describe can be reproduced exactly.

scenario = dict(n=<inputs>, batch_size=None|int, use_backups=bool,
                backup_for=[inputs that get a backup], rounds=[[(kind, input, outcome), ...], ...])
  each round completes the listed futures *together* (so they appear in one `finished` set);
  kind in {"orig", "backup"}, outcome in {"ok", "fail"}.
Returns (results list, exception or None).
"""
import asyncio


def run_scenario(sc, timeout=20):
    import cubed.runtime.asyncio as A

    async def main():
        loop = asyncio.get_running_loop()
        futs = {}  # (kind, input) -> future
        order = {"created": []}

        def create(inputs, name=None, **kw):
            out = []
            for i in inputs:
                f = loop.create_future()
                futs[("orig", i)] = f
                order["created"].append(("orig", i))
                out.append((i, f))
            return out

        def create_backup(inputs, **kw):
            out = []
            for i in inputs:
                f = loop.create_future()
                futs[("backup", i)] = f
                order["created"].append(("backup", i))
                out.append((i, f))
            return out

        backup_for = set(sc.get("backup_for", []))

        def scripted_slb(task, now, start_times, end_times, **kw):
            # exercise the subscripts the real function performs (its precondition)
            _ = start_times[task]
            for t in end_times:
                _ = start_times[t]
            for (kind, i), f in futs.items():
                if f is task and kind == "orig" and i in backup_for and ("backup", i) not in futs:
                    return True
            return False

        A.should_launch_backup = scripted_slb
        rounds = list(sc["rounds"])

        async def driver():
            while rounds:
                await asyncio.sleep(0.05)
                rnd = rounds[0]
                if not all(k in futs for k in [(kind, i) for kind, i, _ in rnd]):
                    continue
                rounds.pop(0)
                for kind, i, outcome in rnd:
                    f = futs[(kind, i)]
                    if f.done():
                        continue
                    if outcome == "ok":
                        f.set_result((f"result-{i}", {}))
                    else:
                        f.set_exception(RuntimeError(f"task {i} ({kind}) failed"))

        drv = asyncio.ensure_future(driver())
        results, exc = [], None
        try:
            async for r, stats in A.async_map_unordered(
                create, list(range(sc["n"])), use_backups=sc.get("use_backups", False), create_backup_futures_func=create_backup,
                batch_size=sc.get("batch_size"), return_stats=True, name="op"):
                results.append(r)
        except BaseException as e:  # noqa: BLE001
            exc = e
        drv.cancel()
        return results, exc

    return asyncio.run(asyncio.wait_for(main(), timeout))


def verdict(sc):
    """-> (reproduced, detail): the property demands one result per input, and an error only if some input has no
    successful attempt."""
    try:
        results, exc = run_scenario(sc)
    except asyncio.TimeoutError:
        return True, "the map did not finish (hang)"
    n = sc["n"]
    ok_inputs = set()
    for rnd in sc["rounds"]:
        for kind, i, outcome in rnd:
            if outcome == "ok":
                ok_inputs.add(i)
    all_can_succeed = ok_inputs == set(range(n))
    if exc is not None:
        if isinstance(exc, RuntimeError) and "failed" in str(exc) and not all_can_succeed:
            return False, f"raised the task's error, as required: {exc}"
        return True, f"raised {type(exc).__name__}: {exc} although every input has a successful attempt"
    want = sorted(f"result-{i}" for i in range(n))
    if sorted(results) != want:
        return True, f"delivered {len(results)} results for {n} inputs: duplicates={sorted(set(r for r in results if results.count(r) > 1))}"
    return False, "one result per input"
