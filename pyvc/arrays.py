"""Symbolic model of cubed arrays, chunk grids and NumPy blocks.

* `sym_array` builds an instance of the *real* `cubed.array_api.array_object.Array` class (its
  properties chunksize/numblocks/npartitions/chunkmem/... are interpreted from /repo's source) whose
  fields satisfy the class invariant established by `CoreArray.__init__` + `normalize_chunks`:
  per axis `n >= 0`, regular grid `ChunkSeq(n, c)` with `1 <= c <= max(n, 1)`.
* `NXP` is the assumed contract of the NumPy kernels used by block functions: shapes and, for pure
  data-movement kernels, the index map (`origin`) from result element to source element.
"""
from __future__ import annotations

import z3

from . import sym
from .interp import GenList, IObj, Opaque
from .sym import PyExc, SBool, SInt, Unsupported, deep_sym, tb, tz, wrap
from .symseq import ChunkSeq, ConstSeq, Grid, MapSeq, PrefixSeq, RepGrid, SymSeq

ARRAY_CLS = "cubed.array_api.array_object:Array"


class Dtype(Opaque):
    def __init__(self, label, itemsize):
        super().__init__(label, itemsize=itemsize, name=label, fields=None, kind="f")

    def __eq__(self, o):
        return o is self

    def __hash__(self):
        return id(self)


def make_spec(c, label="spec", cloud=None):
    """An arbitrary Spec object: instance of the real Spec class with symbolic memory settings."""
    SpecCls = c.interp.world.lookup("cubed.spec:Spec")
    allowed = c.int(f"{label}_allowed_mem", lo=0)
    reserved = c.int(f"{label}_reserved_mem", lo=0)
    attrs = dict(
        _work_dir=Opaque(f"{label}.work_dir"), _reserved_mem=reserved, _allowed_mem=allowed,
        _executor=None, _executor_name=None, _executor_options=None,
        _storage_options=None, _zarr_compressor="auto", _intermediate_store=None,
    )
    o = IObj(SpecCls, attrs)
    return o


class ZArr(Opaque):
    """Stand-in for the storage array behind an Array (zarr.Array / LazyZarrArray / virtual array)."""

    def __init__(self, label, shape, dtype, chunksize, kind="lazy"):
        super().__init__(label, shape=tuple(shape), dtype=dtype, chunks=tuple(chunksize), kind=kind)
        self.__dict__["_isa"] = {
            "lazy": {"cubed.storage.zarr:LazyZarrArray"},
            "zarr": {"zarr.Array"},
            "virtual": {"cubed.storage.virtual:VirtualArray"},
        }[kind]
        self.__dict__["ndim"] = len(shape)


def build_array(interp, name, shape, grids, dtype, spec, plan=None, kind="lazy"):
    cls = interp.world.lookup(ARRAY_CLS)
    chunksize = tuple(_grid_storage_chunk(interp, g) for g in grids)
    z = ZArr(f"z:{name}", shape, dtype, chunksize, kind=kind)
    z.__dict__["grids"] = tuple(grids)
    o = IObj(cls, dict(name=name, _zarray=z, _shape=tuple(shape), _dtype=dtype, _chunks=tuple(grids), spec=spec,
                       _plan=plan if plan is not None else Opaque(f"plan:{name}")))
    return o


def _grid_storage_chunk(interp, g):
    # to_chunksize: max(c[0], 1)
    f = g.first(interp) if isinstance(g, Grid) else g[0]
    return wrap(z3.If(tz(f) > 1, tz(f), 1)) if sym.is_sym(f) else max(f, 1)


def sym_array(c, label, ndim, spec=None, dtype=None, min_extent=None, kind="lazy", single_chunk_axes=(), fixed=None):
    """A symbolic cubed Array satisfying the class invariant established by CoreArray.__init__ + normalize_chunks:
    per axis extent n >= 0 and chunk size 1 <= ch <= max(n, 1) (regular grid ChunkSeq(n, ch)).
    In the quick tier arrays are non-empty (n >= 1) unless the contract asks otherwise; the thorough tier
    includes zero-length axes."""
    if min_extent is None:
        min_extent = 0 if c.cfg.get("_tier") == "thorough" or c.cfg.get("empty") else 1
    shape, grids = [], []
    for i in range(ndim):
        if fixed and i in fixed:
            n = fixed[i]
        else:
            n = c.int(f"{label}_n{i}", lo=min_extent)
        ch = c.int(f"{label}_c{i}", lo=1)
        c.assume(c.Or(ch <= n, c.And(n == 0, ch == 1)))
        g = ChunkSeq(n, ch, canonical=True)
        if i in single_chunk_axes:
            c.assume(c.Or(ch == n, n == 0))
        shape.append(n)
        grids.append(g)
    if dtype is None:
        dtype = getattr(c, "default_dtype", None)
        if dtype is None:
            dtype = c.default_dtype = Dtype("dtype", c.int("itemsize", lo=1))
    if spec is None:
        spec = getattr(c, "default_spec", None)
        if spec is None:
            spec = c.default_spec = make_spec(c)
    arr = build_array(c.interp, f"array-{label}", shape, grids, dtype, spec, kind=kind)
    c.arrays = getattr(c, "arrays", {})
    c.arrays[arr.attrs["name"]] = arr
    return arr


_gensym_n = [0]


def fresh_name(interp, base="array"):
    n = interp.ctx.ghost.get("gensym", 0) + 1
    interp.ctx.ghost["gensym"] = n
    return f"{base}-g{n:03}"


# ---------------------------------------------------------------------------
# assumed contract of normalize_chunks (vendored dask), validated differentially in the thorough tier


def normalize_chunks_contract(interp, chunks, shape=None, limit=None, dtype=None, previous_chunks=None):
    interp.ctx.note_assumption("normalize_chunks: assumed contract (regular grid for int chunk sizes, "
                               "pass-through for explicit block tuples summing to the extent)")
    if shape is None:
        raise Unsupported("normalize_chunks without shape")
    if isinstance(shape, (int, SInt)):
        shape = (shape,)
    shape = tuple(shape)
    if isinstance(chunks, str):
        if len(shape) == 0:
            return ()  # a 0-d array has no axes to chunk
        raise Unsupported("normalize_chunks('auto') depends on global configuration")
    if isinstance(chunks, (int, SInt)):
        chunks = (chunks,) * len(shape)
    if isinstance(chunks, dict):
        raise Unsupported("dict chunks")
    chunks = tuple(chunks) if not isinstance(chunks, SymSeq) else tuple(chunks._pyvc_iter(interp))
    if len(chunks) != len(shape):
        if len(shape) == 1 and all(isinstance(x, (int, SInt)) for x in chunks) and len(chunks) > 1:
            chunks = (chunks,)
        else:
            raise PyExc(ValueError, ("Chunks and shape must be of the same length/dimension",))
    out = []
    for ch, n in zip(chunks, shape):
        if isinstance(ch, (Grid,)):
            if interp.truth(ch.total(interp) != n):
                raise PyExc(ValueError, ("Chunks do not add up to shape",))
            out.append(ch)
        elif isinstance(ch, (tuple, list)):
            if any(sym.is_sym(x) for x in ch) or sym.is_sym(n):
                tot = sum(ch)
                if interp.truth(tot != n):
                    raise PyExc(ValueError, ("Chunks do not add up to shape",))
                out.append(ConstGrid(tuple(ch)))
            else:
                if sum(ch) != n:
                    raise PyExc(ValueError, ("Chunks do not add up to shape",))
                out.append(ConstGrid(tuple(ch)))
        elif ch is None:
            out.append(ChunkSeq(n, _max1(n)))
        elif isinstance(ch, (int, SInt)):
            if interp.truth(ch == -1):
                out.append(ChunkSeq(n, _max1(n)))
            else:
                if interp.truth(ch <= 0):
                    if interp.truth(ch == 0) and interp.truth(n == 0):
                        out.append(ChunkSeq(n, 1))
                        continue
                    raise Unsupported("normalize_chunks with a non-positive chunk size")
                out.append(ChunkSeq(n, ch))
        else:
            raise Unsupported(f"normalize_chunks: chunk spec {type(ch).__name__}")
    return tuple(out)


def _max1(n):
    if isinstance(n, int):
        return max(n, 1)
    return wrap(z3.If(tz(n) > 1, tz(n), 1))


class ConstGrid(Grid):
    """An explicit (concrete-length) tuple of block sizes."""

    def __init__(self, items):
        self.items = tuple(items)

    def length(self):
        return len(self.items)

    def concrete_len(self):
        return True

    def get(self, interp, k):
        if isinstance(k, int):
            return self.items[k]
        return interp.pick(self.items, k)

    def prefix(self, interp, k):
        if isinstance(k, int):
            return sum(self.items[:k])
        acc = [0]
        for x in self.items:
            acc.append(acc[-1] + x)
        return interp.pick(tuple(acc), k)

    def total(self, interp):
        return sum(self.items)

    def maxv(self, interp):
        if not self.items:
            raise PyExc(ValueError, ("max() arg is an empty sequence",))
        m = self.items[0]
        for x in self.items[1:]:
            m = wrap(z3.If(tz(x) > tz(m), tz(x), tz(m))) if (sym.is_sym(x) or sym.is_sym(m)) else max(m, x)
        return m

    def grid_eq(self, other):
        if isinstance(other, ConstGrid):
            if len(self.items) != len(other.items):
                return False
            return wrap(z3.And(*[tz(a) == tz(b) for a, b in zip(self.items, other.items)])) if self.items else True
        ln = other.length()
        interp = sym.cur().interp
        terms = [tz(ln) == len(self.items)]
        for i, x in enumerate(self.items):
            terms.append(tz(other.get(interp, i)) == tz(x))
        return wrap(z3.And(*terms))


# make ChunkSeq/RepGrid comparable with ConstGrid
def _grid_eq_fallback(self, other, _orig):
    if isinstance(other, ConstGrid):
        return other.grid_eq(self)
    return _orig(self, other)


for _cls in (ChunkSeq, RepGrid):
    _o = _cls.grid_eq
    _cls.grid_eq = (lambda o: lambda self, other: _grid_eq_fallback(self, other, o))(_o)


def as_grid(interp, g):
    if isinstance(g, Grid):
        return g
    if isinstance(g, (tuple, list)):
        return ConstGrid(tuple(g))
    if isinstance(g, SymSeq):
        if g.concrete_len():
            return ConstGrid(tuple(g._pyvc_iter(interp)))
    raise Unsupported(f"not a chunk grid: {type(g).__name__}")


def check_regular_chunks_contract(interp, chunkset):
    """_check_regular_chunks on grids: regular grids are regular by construction; explicit tuples are
    run through the real predicate's definition."""
    from .symseq import ConcatGrid

    for g in chunkset:
        if isinstance(g, (ChunkSeq, RepGrid)):
            continue
        if isinstance(g, ConcatGrid):
            # len(set(chunks[:-1])) > 1 -> False ; chunks[-1] > chunks[0] -> False
            ps = g.parts
            if len(ps) == 2 and isinstance(ps[0], RepGrid) and ps[1].concrete_len() and ps[1].length() == 1:
                if interp.truth(ps[1].get(interp, 0) > ps[0].v):
                    return False
                continue
            raise Unsupported("regularity of a general concatenated grid")
        items = tuple(as_grid(interp, g).items)
        if len(items) == 1:
            continue
        for a, b in zip(items[:-2], items[1:-1]):
            if interp.truth(a != b):
                return False
        if interp.truth(items[-1] > items[0]):
            return False
    return True


# ---------------------------------------------------------------------------
# blocks


def _clip_slice(n, sl):
    """numpy/python slice semantics for step 1 on an axis of length n -> (start, length) as terms."""
    if sl.step is not None and not (isinstance(sl.step, int) and sl.step == 1):
        raise Unsupported("block slicing with a step")
    nz = tz(n)

    def norm(v, default):
        if v is None:
            return tz(default)
        v = tz(v)
        return z3.If(v < 0, z3.If(v + nz < 0, z3.IntVal(0), v + nz), z3.If(v > nz, nz, v))

    a = norm(sl.start, 0)
    b = norm(sl.stop, n)
    ln = z3.If(b - a > 0, b - a, 0)
    return wrap(a), wrap(ln)


class SymBlock:
    """A NumPy block with symbolic shape. `origin(local_index_tuple) -> (array_name, global_index_tuple)`
    tracks pure data movement; it is None once values have been computed rather than moved."""

    _pyvc_symbolic = True
    _isa_native = ()

    def __init__(self, shape, dtype=None, origin=None, label="block", fields=None, view_of=None):
        self.shape = tuple(shape)
        self.dtype = dtype
        self.origin = origin
        self.label = label
        self.fields = fields
        # aggregation provenance (reductions): None, or dict(src=<array name>, box=((lo, hi) per axis of src), cond=[z3 terms])
        # — the block aggregates exactly the elements of that box of `src`, each once, provided every term of cond holds
        self.agg = None
        # positional variant: dict(seq=<id of the task's block stream>, lo, hi, cond) — aggregates stream positions lo..hi-1
        self.aggpos = None
        # prefix/element provenance along one axis (scans): dict(axis, f, cond): the element(s) at local index l along
        # `axis` aggregate the half-open interval f(l) == (lo, hi) of boundary terms of a root tiling; `cond` holds side
        # conditions: z3 terms, or ("forall", bound, g) meaning g(k) for every 0 <= k < bound
        self.pagg = None
        self.contr = None  # contraction provenance (matmul), see _NXP.matmul
        # memory: a view shares the buffer of its base; anything else is a fresh allocation (reported to the live-memory
        # meter of the path, if one is switched on)
        self.base = view_of.base if view_of is not None else self
        if view_of is None:
            try:
                m = getattr(sym.cur(), "meter", None)
            except Exception:  # noqa: BLE001
                m = None
            if m is not None:
                m.alloc(self)

    def nbytes_term(self):
        n = self.dtype.itemsize if self.dtype is not None and hasattr(self.dtype, "itemsize") else 1
        for s_ in self.shape:
            n = n * s_
        return n

    @property
    def ndim(self):
        return len(self.shape)

    @property
    def size(self):
        r = 1
        for s in self.shape:
            r = r * s
        return r

    def _pyvc_getattr(self, interp, name):
        if name in ("shape", "dtype", "ndim", "size", "origin", "label", "fields"):
            return getattr(self, name)
        if name == "T":
            return NXP.permute_dims(self, tuple(range(self.ndim))[::-1])
        if name == "astype":
            return lambda dt, **k: SymBlock(self.shape, dt, self.origin, self.label)
        if name == "copy":
            return lambda: SymBlock(self.shape, self.dtype, self.origin, self.label)
        if name == "nbytes":
            return self.size * self.dtype.itemsize
        raise PyExc(AttributeError, (name,))

    def _norm_index(self, idx):
        if not isinstance(idx, tuple):
            idx = (idx,)
        if any(i is Ellipsis for i in idx):
            k = idx.index(Ellipsis)
            nnew = sum(1 for i in idx if i is None)
            fill = self.ndim - (len(idx) - 1 - nnew)
            idx = idx[:k] + (slice(None),) * fill + idx[k + 1:]
        nnew = sum(1 for i in idx if i is None)
        if len(idx) - nnew > self.ndim:
            raise PyExc(IndexError, ("too many indices for array",))
        idx = idx + (slice(None),) * (self.ndim - (len(idx) - nnew))
        return idx

    def _pyvc_getitem(self, interp, idx):
        if isinstance(idx, str):
            if self.fields is None:
                raise Unsupported("field access on a non-structured block")
            return self.fields[idx]
        idx = self._norm_index(idx)
        new_shape, starts, kinds = [], [], []
        ax = 0
        for i in idx:
            if i is None:
                new_shape.append(1)
                kinds.append(("new", None))
                continue
            n = self.shape[ax]
            if isinstance(i, slice):
                a, ln = _clip_slice(n, i)
                new_shape.append(ln)
                kinds.append(("slice", a))
            elif isinstance(i, (int, SInt)):
                if interp.truth((i < -n) | (i >= n)):
                    raise PyExc(IndexError, ("index out of bounds for axis",))
                j = wrap(z3.If(tz(i) < 0, tz(i) + tz(n), tz(i)))
                kinds.append(("int", j))
            else:
                raise Unsupported(f"block index of type {type(i).__name__}")
            ax += 1
        origin = None
        if self.origin is not None:
            src = self.origin

            def origin(loc, kinds=kinds, src=src):
                out, p = [], 0
                for kind, a in kinds:
                    if kind == "new":
                        p += 1
                    elif kind == "slice":
                        out.append(loc[p] + a)
                        p += 1
                    else:
                        out.append(a)
                return src(tuple(out))

        out = SymBlock(new_shape, self.dtype, origin, self.label, view_of=self)
        if getattr(self, "contr", None) is not None and all(k_[0] in ("new",) or (k_[0] == "slice" and isinstance(k_[1], int) and k_[1] == 0) for k_ in kinds) \
                and [n_ for n_, k_ in zip(new_shape, kinds) if k_[0] == "slice"] == list(self.shape):
            out.contr = self.contr  # only new unit axes were inserted: same elements
        pg = self.pagg
        if pg is not None and all(k_[0] == "slice" for k_ in kinds) and len(kinds) == self.ndim:
            off = kinds[pg["axis"]][1]
            out.pagg = dict(axis=pg["axis"], f=(lambda l, f=pg["f"], off=off: f(l + off)), cond=list(pg["cond"]))
        return out

    def _pyvc_setitem(self, interp, idx, val):
        idx = self._norm_index(idx)
        sel_shape, starts = [], []
        for ax, i in enumerate(idx):
            if not isinstance(i, slice):
                raise Unsupported("block assignment with a non-slice index")
            a, ln = _clip_slice(self.shape[ax], i)
            sel_shape.append(ln)
            starts.append(a)
        vshape = tuple(getattr(val, "shape", ()))
        # numpy broadcasts the value; anything but an exact match or leading/size-1 broadcast raises ValueError
        if len(vshape) > len(sel_shape):
            raise PyExc(ValueError, ("could not broadcast input array",))
        pad = (1,) * (len(sel_shape) - len(vshape)) + vshape
        exact = True
        for a, b in zip(pad, sel_shape):
            e = (a == b)
            if e is not True:
                exact = e if exact is True else (exact & e)
        if not interp.truth(exact):
            ok = True
            for a, b in zip(pad, sel_shape):
                e = (a == b) | (a == 1)
                ok = e if ok is True else (ok & e)
            if not interp.truth(ok):
                raise PyExc(ValueError, ("could not broadcast input array into shape of the selection",))
            interp.ctx.effect("silent-broadcast-assign", self.label)
            self.origin = None
            return
        old, vorig = self.origin, getattr(val, "origin", None)
        if vorig is None:
            self.origin = None
            return

        def origin(loc, old=old, vorig=vorig, starts=tuple(starts), sel=tuple(sel_shape)):
            inside = True
            for l, a, n in zip(loc, starts, sel):
                e = (l >= a) & (l < a + n)
                inside = e if inside is True else (inside & e)
            if interp.truth(inside):
                return vorig(tuple(l - a for l, a in zip(loc, starts))[len(sel) - len(vshape):])
            if old is None:
                return ("<uninitialised>", ())
            return old(loc)

        self.origin = origin

    def __repr__(self):
        return f"<SymBlock {self.label} shape={self.shape}>"


def concretize(interp, v, cap, why):
    """Fork over v == 0..cap when the path condition bounds v by cap (exhaustive), else give up (undecided)."""
    if isinstance(v, int):
        return v
    c = interp.ctx
    if not c.entails(tz(v) <= cap) or not c.entails(tz(v) >= 0):
        raise Unsupported(why)
    for i in range(cap + 1):
        if i == cap or c.branch(tz(v) == i):
            return i


class _NXP:
    """Assumed shape / index-map contracts of the NumPy kernels called by cubed's block functions."""

    newaxis = None
    int8 = Dtype("int8", 1)
    int16, int32, int64 = Dtype("int16", 2), Dtype("int32", 4), Dtype("int64", 8)
    uint8, uint16, uint32, uint64 = Dtype("uint8", 1), Dtype("uint16", 2), Dtype("uint32", 4), Dtype("uint64", 8)
    float32, float64 = Dtype("float32", 4), Dtype("float64", 8)
    complex64, complex128 = Dtype("complex64", 8), Dtype("complex128", 16)

    def _interp(self):
        return sym.cur().interp

    def _note(self, fn):
        sym.cur().note_assumption(f"numpy kernel contract assumed: {fn} (shape and index map)")

    def asarray(self, x, dtype=None, **k):
        if isinstance(x, (int, float, bool, SInt, sym.SReal)) and not isinstance(x, SymBlock):
            # a Python scalar becomes a 0-d array
            return SymBlock((), dtype or Dtype("scalar", 8), (lambda loc, x=x: ("<value>", (x,))), "scalar")
        return x

    def empty(self, shape, dtype=None, **k):
        self._note("empty")
        if isinstance(shape, (int, SInt)):
            shape = (shape,)
        return SymBlock(tuple(shape), dtype, None, "empty")

    def _axis(self, axis, nd):
        interp = self._interp()
        if isinstance(axis, SInt):
            raise Unsupported("symbolic axis")
        if axis < -nd or axis >= nd:
            raise PyExc(ValueError, ("axis out of bounds",))
        return axis + nd if axis < 0 else axis

    def repeat(self, x, repeats, axis=None):
        self._note("repeat")
        if axis is None:
            raise Unsupported("repeat with axis=None on a block")
        ax = self._axis(axis, x.ndim)
        shape = tuple(s * repeats if i == ax else s for i, s in enumerate(x.shape))
        origin = None
        if x.origin is not None:
            src = x.origin
            origin = lambda loc: src(tuple(l // repeats if i == ax else l for i, l in enumerate(loc)))
        return SymBlock(shape, x.dtype, origin, "repeat")

    def expand_dims(self, x, axis=0):
        self._note("expand_dims")
        axes = axis if isinstance(axis, tuple) else (axis,)
        nd = x.ndim + len(axes)
        axes = sorted(self._axis(a, nd) for a in axes)
        shape, it = [], iter(x.shape)
        for i in range(nd):
            shape.append(1 if i in axes else next(it))
        origin = None
        if x.origin is not None:
            src = x.origin
            origin = lambda loc: src(tuple(l for i, l in enumerate(loc) if i not in axes))
        return SymBlock(shape, x.dtype, origin, "expand_dims", view_of=x if isinstance(x, SymBlock) else None)

    def squeeze(self, x, axis=None):
        self._note("squeeze")
        interp = self._interp()
        axes = axis if isinstance(axis, tuple) else (axis,)
        axes = [self._axis(a, x.ndim) for a in axes]
        for a in axes:
            if interp.truth(x.shape[a] != 1):
                raise PyExc(ValueError, ("cannot select an axis to squeeze out which has size not equal to one",))
        shape = tuple(s for i, s in enumerate(x.shape) if i not in axes)
        origin = None
        if x.origin is not None:
            src = x.origin

            def origin(loc):
                it = iter(loc)
                return src(tuple(0 if i in axes else next(it) for i in range(x.ndim)))

        return SymBlock(shape, x.dtype, origin, "squeeze", view_of=x if isinstance(x, SymBlock) else None)

    def permute_dims(self, x, axes):
        self._note("permute_dims")
        axes = tuple(axes)
        shape = tuple(x.shape[a] for a in axes)
        origin = None
        if x.origin is not None:
            src = x.origin

            def origin(loc):
                out = [None] * len(axes)
                for i, a in enumerate(axes):
                    out[a] = loc[i]
                return src(tuple(out))

        return SymBlock(shape, x.dtype, origin, "permute_dims", view_of=x if isinstance(x, SymBlock) else None)

    def reshape(self, x, shape, **k):
        self._note("reshape")
        interp = self._interp()
        shape = tuple(shape)
        n1, n2 = x.size, 1
        for s in shape:
            n2 = n2 * s
        if interp.truth(n1 != n2):
            raise PyExc(ValueError, ("cannot reshape array",))
        return SymBlock(shape, x.dtype, None, "reshape", view_of=x)

    def broadcast_to(self, x, shape):
        self._note("broadcast_to")
        interp = self._interp()
        shape = tuple(shape)
        xs = tuple(getattr(x, "shape", ()))
        if len(xs) > len(shape):
            raise PyExc(ValueError, ("input operand has more dimensions than allowed by the axis remapping",))
        off = len(shape) - len(xs)
        for a, b in zip(xs, shape[off:]):
            if not interp.truth((a == b) | (a == 1)):
                raise PyExc(ValueError, ("operands could not be broadcast together",))
        origin = None
        if getattr(x, "origin", None) is not None:
            src = x.origin

            def origin(loc):
                return src(tuple(wrap(z3.If(tz(a) == 1, z3.IntVal(0), tz(l))) for a, l in zip(xs, loc[off:])))

        return SymBlock(shape, getattr(x, "dtype", None), origin, "broadcast_to", view_of=x if isinstance(x, SymBlock) else None)

    def concat(self, arrays, axis=0):
        self._note("concat")
        interp = self._interp()
        arrays = list(arrays)
        if not arrays:
            raise PyExc(ValueError, ("need at least one array to concatenate",))
        nd = arrays[0].ndim
        ax = self._axis(axis, nd)
        tot = 0
        for a in arrays:
            if a.ndim != nd:
                raise PyExc(ValueError, ("all the input array dimensions must match",))
            for i in range(nd):
                if i != ax and interp.truth(a.shape[i] != arrays[0].shape[i]):
                    raise PyExc(ValueError, ("all the input array dimensions except for the concatenation axis must match exactly",))
            tot = tot + a.shape[ax]
        shape = tuple(tot if i == ax else s for i, s in enumerate(arrays[0].shape))
        origin = None
        if all(a.origin is not None for a in arrays):
            def origin(loc):
                off = 0
                for j, a in enumerate(arrays):
                    if j == len(arrays) - 1 or interp.truth(loc[ax] < off + a.shape[ax]):
                        return a.origin(tuple(l - off if i == ax else l for i, l in enumerate(loc)))
                    off = off + a.shape[ax]

        out = SymBlock(shape, arrays[0].dtype, origin, "concat")
        aggs = [getattr(a, "agg", None) for a in arrays]
        if all(g is not None for g in aggs) and len({g["src"] for g in aggs}) == 1 and all(len(g["box"]) == nd for g in aggs):
            # concatenating aggregates along `ax`: the boxes must be adjacent along ax (in order) and equal elsewhere
            cond = [t for g in aggs for t in g["cond"]]
            for g1, g2 in zip(aggs, aggs[1:]):
                for i in range(nd):
                    if i == ax:
                        cond.append(tz(g1["box"][i][1]) == tz(g2["box"][i][0]))
                    else:
                        cond.append(z3.And(tz(g1["box"][i][0]) == tz(g2["box"][i][0]), tz(g1["box"][i][1]) == tz(g2["box"][i][1])))
            box = tuple((aggs[0]["box"][i][0], aggs[-1]["box"][i][1]) if i == ax else aggs[0]["box"][i] for i in range(nd))
            out.agg = dict(src=aggs[0]["src"], box=box, cond=cond)
        pos = [getattr(a, "aggpos", None) for a in arrays]
        if all(g is not None for g in pos) and len({g["seq"] for g in pos}) == 1:
            cond = [t for g in pos for t in g["cond"]]
            for g1, g2 in zip(pos, pos[1:]):
                cond.append(tz(g1["hi"]) == tz(g2["lo"]))  # the pieces are consecutive runs of the stream
            out.aggpos = dict(seq=pos[0]["seq"], lo=pos[0]["lo"], hi=pos[-1]["hi"], cond=cond)
        pgs = [getattr(a, "pagg", None) for a in arrays]
        if all(g is not None and g["axis"] == ax for g in pgs):
            lens = [a.shape[ax] for a in arrays]

            def f(l, pgs=pgs, lens=lens):
                off = 0
                for j, (g, ln) in enumerate(zip(pgs, lens)):
                    if j == len(pgs) - 1 or interp.truth(l < off + ln):
                        return g["f"](l - off)
                    off = off + ln

            out.pagg = dict(axis=ax, f=f, cond=[t for g in pgs for t in g["cond"]])
        return out

    def flip(self, x, axis=None):
        self._note("flip")
        axes = tuple(range(x.ndim)) if axis is None else (axis if isinstance(axis, tuple) else (axis,))
        axes = [self._axis(a, x.ndim) for a in axes]
        origin = None
        if x.origin is not None:
            src = x.origin
            origin = lambda loc: src(tuple(x.shape[i] - 1 - l if i in axes else l for i, l in enumerate(loc)))
        return SymBlock(x.shape, x.dtype, origin, "flip", view_of=x if isinstance(x, SymBlock) else None)

    def unstack(self, x, axis=0):
        self._note("unstack")
        ax = self._axis(axis, x.ndim)
        n = x.shape[ax]
        if not isinstance(n, int):
            n = concretize(self._interp(), n, 6, "unstack of a block with unbounded symbolic extent along the axis")
        out = []
        for j in range(n):
            idx = tuple(j if i == ax else slice(None) for i in range(x.ndim))
            out.append(x._pyvc_getitem(self._interp(), idx))
        return tuple(out)

    def matmul(self, a, b):
        """numpy.matmul of (…, m, k) and (…, k, n) blocks: (…, m, n); element (i, j) contracts a[i, :] with b[:, j].
        Contraction provenance `contr`: rows/cols/k are the source intervals of a's rows, b's columns and the common
        contracted interval — a's columns and b's rows must be the *same* interval of the contracted axis (cond)."""
        self._note("matmul")
        interp = self._interp()
        if a.ndim < 2 or b.ndim < 2 or a.ndim != b.ndim:
            raise Unsupported("matmul kernel contract: operands of rank < 2 or different ranks")
        if interp.truth(a.shape[-1] != b.shape[-2]):
            raise PyExc(ValueError, ("matmul: Input operand 1 has a mismatch in its core dimension 0",))
        for x_, y_ in zip(a.shape[:-2], b.shape[:-2]):
            if interp.truth(x_ != y_):
                raise Unsupported("matmul kernel contract: broadcasting batch dimensions")
        out = SymBlock(tuple(a.shape[:-2]) + (a.shape[-2], b.shape[-1]), a.dtype, None, "matmul")
        ga, gb_ = getattr(a, "agg", None), getattr(b, "agg", None)
        if ga is not None and gb_ is not None:
            ka, kb = ga["box"][-1], gb_["box"][-2]
            out.contr = dict(a=ga["src"], b=gb_["src"], rows=ga["box"][-2], cols=gb_["box"][-1], k=ka,
                             batch=tuple(ga["box"][:-2]),
                             cond=list(ga["cond"]) + list(gb_["cond"]) + [z3.And(tz(ka[0]) == tz(kb[0]), tz(ka[1]) == tz(kb[1]))]
                             + [z3.And(tz(p[0]) == tz(q[0]), tz(p[1]) == tz(q[1])) for p, q in zip(ga["box"][:-2], gb_["box"][:-2])])
        return out

    def astype(self, x, dtype, **k):
        self._note("astype")
        out = SymBlock(x.shape, dtype, x.origin, "astype")
        out.agg, out.aggpos = getattr(x, "agg", None), getattr(x, "aggpos", None)
        return out

    def broadcast_shapes(self, *shapes):
        """numpy.broadcast_shapes: right-aligned; extents agree or one of them is 1"""
        self._note("broadcast_shapes")
        interp = self._interp()
        shapes = [tuple(s) if not isinstance(s, (int, SInt)) else (s,) for s in shapes]
        nd = max((len(s) for s in shapes), default=0)
        out = []
        for i in range(nd):
            ext = None
            for sh in shapes:
                j = i - (nd - len(sh))
                if j < 0:
                    continue
                e = sh[j]
                if ext is None:
                    ext = e
                elif interp.truth(ext == e):
                    continue
                elif interp.truth(ext == 1):
                    ext = e
                elif interp.truth(e == 1):
                    continue
                else:
                    raise PyExc(ValueError, ("shape mismatch: objects cannot be broadcast to a single shape",))
            out.append(ext)
        return tuple(out)

    # generated values: origin(loc) = ("<value>", (term,)) — the element's value as a term of its local index
    def arange(self, start, stop=None, step=1, dtype=None, **k):
        """numpy.arange for integer arguments: n = max(0, ceil((stop - start) / step)) elements start + l*step"""
        self._note("arange")
        ctx = sym.cur()
        if stop is None:
            start, stop = 0, start
        if isinstance(step, SInt) or step == 0:
            raise Unsupported("nxp.arange contract: symbolic or zero step")
        if isinstance(start, sym.SReal) or isinstance(stop, sym.SReal) or isinstance(start, float) or isinstance(stop, float):
            raise Unsupported("nxp.arange contract: non-integer bounds")
        n = ctx.fresh_int("arange_n", lo=0)
        d, st = tz(stop) - tz(start), step
        if st > 0:
            ctx.assume_def(z3.If(d <= 0, n.t == 0, z3.And((n.t - 1) * st < d, d <= n.t * st)))
        else:
            ctx.assume_def(z3.If(d >= 0, n.t == 0, z3.And((n.t - 1) * st > d, d >= n.t * st)))
        return SymBlock((n,), dtype, (lambda loc: ("<value>", (start + loc[0] * step,))), "arange")

    def linspace(self, start, stop, num, endpoint=True, dtype=None, **k):
        """numpy.linspace over the reals: num elements start + l*(stop - start)/div, div = num-1 if endpoint else num
        (div == 0: the single element is start)"""
        self._note("linspace (real arithmetic)")
        interp = self._interp()
        div = (num - 1) if endpoint else num

        def origin(loc):
            l = loc[0]
            if interp.truth(div == 0):
                return ("<value>", (start,))
            return ("<value>", (start + l * ((stop - start) / div),))

        return SymBlock((num,), dtype, origin, "linspace")

    def eye(self, n_rows, n_cols=None, k=0, dtype=None, **kw):
        self._note("eye")
        if n_cols is None:
            n_cols = n_rows
        return SymBlock((n_rows, n_cols), dtype,
                        (lambda loc: ("<value>", (wrap(z3.If(tz(loc[1]) - tz(loc[0]) == tz(k), z3.IntVal(1), z3.IntVal(0))),))), "eye")

    def zeros_like(self, x, dtype=None, **k):
        self._note("zeros_like")
        return SymBlock(x.shape, dtype or x.dtype, (lambda loc: ("<value>", (0,))), "zeros")

    @property
    def linalg(self):
        nxp = self

        class _Linalg:
            @staticmethod
            def qr(a, mode="reduced"):
                """numpy.linalg.qr, mode='reduced', of an (m, n) block: Q is (m, k), R is (k, n), k = min(m, n)"""
                nxp._note("linalg.qr (shapes)")
                if a.ndim != 2:
                    raise Unsupported("linalg.qr contract: rank != 2")
                m, n = a.shape
                k = m if nxp._interp().truth(m <= n) else n
                return (SymBlock((m, k), a.dtype, None, "Q"), SymBlock((k, n), a.dtype, None, "R"))

        return _Linalg()

    def __array_namespace_info__(self):
        class _Info:
            def default_dtypes(self, device=None):
                return {"real floating": Dtype("float64", 8), "integral": Dtype("int64", 8),
                        "indexing": Dtype("int64", 8), "complex floating": Dtype("complex128", 16)}

        return _Info()

    def __getattr__(self, name):
        raise Unsupported(f"numpy kernel nxp.{name} has no assumed contract")


NXP = _NXP()


class _BackendModule:
    """Replacement for cubed.backend_array_api in the prover (the NumPy namespace is a contract)."""

    namespace = NXP
    IS_IMMUTABLE_ARRAY = False
    xp_name = "numpy"

    @staticmethod
    def numpy_array_to_backend_array(arr, *, dtype=None):
        return arr

    @staticmethod
    def backend_array_to_numpy_array(arr):
        return arr

    @staticmethod
    def backend_dtype_to_numpy_dtype(dtype):
        return dtype


# ---------------------------------------------------------------------------
# prelude: summaries every array-level contract needs


def prelude(c):
    interp = c.interp
    W = interp.world
    W.module_overrides["cubed.backend_array_api"] = _BackendModule
    S = W.summaries

    S["cubed.utils:normalize_chunks"] = lambda it, fn, a, k: normalize_chunks_contract(it, *a, **k)
    S["cubed.vendor.dask.array.core:normalize_chunks"] = lambda it, fn, a, k: normalize_chunks_contract(it, *a, **k)
    S["cubed.vendor.dask.array.core:_check_regular_chunks"] = lambda it, fn, a, k: check_regular_chunks_contract(it, *a, **k)

    def normalize_dtype(it, fn, a, k):
        return a[0]

    S["cubed.utils:normalize_dtype"] = normalize_dtype

    def itemsize(it, fn, a, k):
        dt = a[0]
        if isinstance(dt, list):
            tot = 0
            for _, v in dt:
                tot = tot + itemsize(it, fn, [v], {})
            return tot
        if hasattr(dt, "itemsize"):
            return dt.itemsize
        raise Unsupported(f"itemsize of {dt!r}")

    S["cubed.utils:itemsize"] = itemsize

    def cumsum(it, fn, a, k):
        seq = a[0]
        initial_zero = a[1] if len(a) > 1 else k.get("initial_zero", False)
        if not initial_zero:
            raise Unsupported("_cumsum without initial zero")
        it.ctx.note_assumption("itertools.accumulate(seq, add, initial=0)[k] is the sum of the first k elements "
                               "(closed form per grid kind; step lemma prefix(k+1) == prefix(k) + get(k) proved per run)")
        return PrefixSeq(as_grid(it, seq))

    S["cubed.utils:_cumsum"] = cumsum

    def has_keyword(it, fn, a, k):
        import functools

        f, kw = a[0], a[1]
        bound = set()
        while isinstance(f, functools.partial):
            bound |= set(f.keywords)
            f = f.func
        from .interp import BoundMethod, Closure

        if isinstance(f, BoundMethod):
            f = f.fn
        if isinstance(f, Closure):
            names, has_kwargs = f.param_names()
            return kw in names
        hk = getattr(f, "_pyvc_keywords", None)
        if hk is not None:
            return kw in hk
        if f is None:
            return False
        if isinstance(f, Opaque):
            return kw in getattr(f, "keywords", ())
        try:
            import inspect

            return kw in inspect.signature(f).parameters
        except Exception:
            return False

    S["cubed.vendor.dask.utils:has_keyword"] = has_keyword

    def result_type(it, fn, a, k):
        dts = [getattr(x, "dtype", x) for x in a]
        if all(d is dts[0] for d in dts):
            return dts[0]
        raise Unsupported("dtype promotion between different symbolic dtypes")

    S["cubed.array_api.data_type_functions:result_type"] = result_type

    return S


def prefix_step_lemma(c, grid, label):
    """prefix(k+1) == prefix(k) + get(k) for 0 <= k < len — justifies the closed-form prefix sums."""
    interp = c.interp
    k = c.ctx.fresh_int("pk", lo=0)
    c.ctx.push()
    try:
        c.ctx.assume(k < grid.length())
        lhs = grid.prefix(interp, k + 1)
        rhs = grid.prefix(interp, k) + grid.get(interp, k)
        c.ctx.oblige(f"lemma:prefix-step[{label}]", lhs == rhs, kind="lemma", assume_after=False)
        c.ctx.oblige(f"lemma:prefix-total[{label}]", grid.prefix(interp, grid.length()) == grid.total(interp),
                     kind="lemma", assume_after=False)
    finally:
        c.ctx.pop()


def region(interp, grids, coords):
    """(start, size) per axis of block `coords` in the grid — the meaning of get_item()."""
    out = []
    for g, k in zip(grids, coords):
        g = as_grid(interp, g)
        out.append((g.prefix(interp, k), g.get(interp, k)))
    return out
