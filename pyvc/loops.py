"""Loop contracts: inductive invariants for loops over collections of symbolic size.

For `for x in seq` with symbolic length m the rule is the standard one, indexed by the number j of elements
already processed:
    entry         the invariant holds for j = 0 in the state before the loop
    preservation  for a fresh j with 0 <= j < m: havoc the loop-modified variables to *any* state satisfying the
                  invariant at j, bind x = seq[j], execute the body once, the invariant holds at j + 1
    exit          after the loop the loop-modified variables are any state satisfying the invariant at m
Keyed by (function qualname, ordinal of the loop in the function body): no line numbers, no variable renaming
in the contract except the names the invariant itself mentions.
"""
from __future__ import annotations

from . import sym
from .interp import _Break, _Continue, _Return
from .sym import PyExc, Unsupported, tb, tz


class ForInvariant:
    """havoc(interp, frame, j): set the loop-modified locals to a generic state satisfying the invariant at j
    holds(interp, frame, j): iterable of (name, term) — obligations that the current state satisfies it at j"""

    def __init__(self, name, havoc, holds, only_symbolic=True):
        self.name = name
        self.havoc = havoc
        self.holds = holds
        self.only_symbolic = only_symbolic

    def run_for(self, interp, st, fr, it):
        from .symseq import SymSeq

        ctx = interp.ctx
        if not isinstance(it, SymSeq) or it.concrete_len():
            # concrete number of iterations: plain unrolling is exact
            broke = False
            for x in interp.iterate(it):
                interp.assign(st.target, x, fr)
                try:
                    interp.exec_block(st.body, fr)
                except _Break:
                    broke = True
                    break
                except _Continue:
                    continue
            if not broke:
                interp.exec_block(st.orelse, fr)
            return
        m = it.length()
        for nm, term in self.holds(interp, fr, 0):
            ctx.oblige(f"loop[{self.name}]:entry:{nm}", term, kind="invariant")
        saved = dict(fr.locals)
        if ctx.feasible(tb(m > 0)):
            ctx.push()
            try:
                j = ctx.fresh_int("j", lo=0)
                ctx.assume(j < m)
                self.havoc(interp, fr, j)
                interp.assign(st.target, it.get(interp, j), fr)
                try:
                    interp.exec_block(st.body, fr)
                except _Continue:
                    pass
                except _Break:
                    raise Unsupported("break inside a loop verified by invariant")
                except PyExc as e:
                    ctx.check_exception_now(e)
                    raise
                for nm, term in self.holds(interp, fr, j + 1):
                    ctx.oblige(f"loop[{self.name}]:preserved:{nm}", term, kind="invariant")
            finally:
                ctx.pop()
        fr.locals.clear()
        fr.locals.update(saved)
        self.havoc(interp, fr, m)
        interp.exec_block(st.orelse, fr)


class WhileInvariant:
    """havoc(interp, frame): set loop-modified locals to a generic state satisfying the invariant;
    holds(interp, frame): obligations; variant(interp, frame) -> term (optional, must decrease and stay >= 0)."""

    def __init__(self, name, havoc, holds, variant=None):
        self.name, self.havoc, self.holds, self.variant = name, havoc, holds, variant

    def run_while(self, interp, st, fr):
        ctx = interp.ctx
        for nm, term in self.holds(interp, fr):
            ctx.oblige(f"loop[{self.name}]:entry:{nm}", term, kind="invariant")
        saved = dict(fr.locals)
        # generic iteration
        ctx.push()
        try:
            self.havoc(interp, fr)
            if interp.truth(interp.eval(st.test, fr)):
                v0 = self.variant(interp, fr) if self.variant else None
                try:
                    interp.exec_block(st.body, fr)
                except _Continue:
                    pass
                except _Break:
                    raise Unsupported("break inside a loop verified by invariant")
                except PyExc as e:
                    ctx.check_exception_now(e)
                    raise
                for nm, term in self.holds(interp, fr):
                    ctx.oblige(f"loop[{self.name}]:preserved:{nm}", term, kind="invariant")
                if v0 is not None:
                    v1 = self.variant(interp, fr)
                    ctx.oblige(f"loop[{self.name}]:variant-decreases", tb((v1 < v0) & (v0 >= 0)), kind="variant")
        finally:
            ctx.pop()
        fr.locals.clear()
        fr.locals.update(saved)
        self.havoc(interp, fr)
        if interp.truth(interp.eval(st.test, fr)):
            raise sym.PathInfeasible()  # after the loop the guard is false
        interp.exec_block(st.orelse, fr)


class BoundReached(Exception):
    """A loop was cut at its stated iteration bound: the path ends quietly; what lies beyond is *bounded*, not proved."""


class BoundedFor:
    """Execute at most `bound` iterations of a `for` loop exactly; a path that needs more is cut and the cut is
    recorded (the obligations generated so far stand; the contract must list the bound under `bounded`)."""

    def __init__(self, bound):
        self.bound = bound

    def run_for(self, interp, st, fr, it):
        n = 0
        broke = False
        for x in interp.iterate(it):
            if n >= self.bound:
                interp.ctx.note_assumption(f"loop cut after {self.bound} iterations (bounded)")
                interp.ctx.bounded_cut = True
                raise sym.PathEnd()
            n += 1
            interp.assign(st.target, x, fr)
            try:
                interp.exec_block(st.body, fr)
            except _Break:
                broke = True
                break
            except _Continue:
                continue
        if not broke:
            interp.exec_block(st.orelse, fr)
