"""Live-memory meter for block functions (C03).

While it is switched on, every allocation of a block (a SymBlock that is not a view) records a *candidate peak*: the
bytes of all distinct buffers that are referenced at that moment —
  * by a local variable of an active interpreted frame (tuples, lists, dicts and eagerly evaluated generators are
    searched), a closure cell is not;
  * by an argument list of a call in progress;
  * pinned explicitly (blocks the runtime holds for the task);
plus the new block.  Reference counting is modelled at statement granularity: a buffer is released when the last such
reference goes away (rebinding a local releases the old value once the right-hand side has been evaluated).

The model counts array data only and nothing the NumPy kernels allocate internally, so it never exceeds what really
is resident: an obligation  candidate <= projected_mem - reserved_mem  that fails names a real over-run (replayed
natively with tracemalloc); passing obligations prove the bound for the modelled allocations under the stated kernel
contracts (a kernel allocates exactly its result; slices, expand_dims, squeeze, permute_dims, reshape, broadcast_to,
flip are views)."""
from __future__ import annotations


class MemMeter:
    def __init__(self, interp, pinned=(), on_alloc=None):
        self.interp = interp
        self.on_alloc = on_alloc  # called at every allocation (obligations are raised there: a fork inside a scoped
        # block ends at the scope's exit, so nothing may be deferred to the end of the call)
        self.pinned = list(pinned)
        self.candidates = []  # (label, total bytes term, [labels of live buffers])
        self.base_depth = len(interp.frame_stack)

    def _collect(self, v, out, depth=0):
        from .arrays import SymBlock
        from .interp import GenList

        if isinstance(v, SymBlock):
            out[id(v.base)] = v.base
            return
        if depth > 3:
            return
        if isinstance(v, (tuple, list, GenList)):
            for x in v:
                self._collect(x, out, depth + 1)
        elif isinstance(v, dict):
            for x in v.values():
                self._collect(x, out, depth + 1)

    def live(self):
        out = {}
        for fr in self.interp.frame_stack[self.base_depth:]:
            for v in list(fr.locals.values()):
                self._collect(v, out)
        for args, kwargs in self.interp.inflight:
            self._collect(args, out)
            self._collect(kwargs, out)
        for b in self.pinned:
            self._collect(b, out)
        return out

    def alloc(self, blk):
        live = self.live()
        live[id(blk)] = blk
        self.candidates.append((f"{len(self.candidates)}:{blk.label}", list(live.values())))
        if self.on_alloc is not None:
            self.on_alloc(self, blk.label, list(live.values()))

    def totals(self, canon=None):
        """-> [(label, total bytes term, [labels])]; `canon(extent)` may replace an extent by an equal canonical term"""
        out = []
        for label, bufs in self.candidates:
            total = 0
            for b in bufs:
                n = b.dtype.itemsize if b.dtype is not None and hasattr(b.dtype, "itemsize") else 1
                for e in b.shape:
                    n = n * (canon(e) if canon is not None else e)
                total = total + n
            out.append((label, total, sorted(b.label for b in bufs)))
        return out
